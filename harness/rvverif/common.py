"""Run context shared by all drivers: repo path, seed, tier, scratch dir, verdict protocol,
known findings, evidence file."""
import hashlib
import json
import os
import random
import re
import shutil
import sys
import time

VERIF = os.path.dirname(os.path.dirname(os.path.dirname(os.path.abspath(__file__))))
REPO = os.environ.get("RV_REPO", "/repo")


def setup_repo_path():
    """Always run the library from the repository's current working tree."""
    p = os.path.join(REPO, "src", "python")
    if p in sys.path:
        sys.path.remove(p)
    sys.path.insert(0, p)
    os.environ.setdefault("RV_VERIF", "1")
    import logging
    logging.disable(logging.CRITICAL)
    import warnings
    warnings.simplefilter("ignore")


class MachineryError(Exception):
    pass


class Ctx:
    def __init__(self, pid, tier, seed, replay=None):
        self.pid = pid
        self.tier = tier
        self.seed = seed
        self.replay = replay
        self.t0 = time.time()
        self.work = os.path.join(VERIF, ".work", "%s.%d" % (pid, os.getpid()))
        shutil.rmtree(self.work, ignore_errors=True)
        os.makedirs(self.work, exist_ok=True)
        self.rnd = random.Random(seed * 1000003 + int(pid[1:]))
        self.violations = []      # dicts: clause, where, detail
        self.known_hits = {}
        self.cov = {"states": 0, "transitions": 0, "traces_validated_against_impl": 0,
                    "evaluations": 0, "distinct_nontrivial": 0, "samples": [], "stages": [],
                    "canaries": [], "trusted_base": [
                        "TLC 1.8 (judge)", "spec/*.tla reviewed against docs/sunvox-file-format.rst, "
                        "specs/fileformat.yaml and the property text",
                        "harness projection (getattr of public attributes, no library serializer)",
                        "harness TLV splitter/joiner"]}
        self._seen = set()
        self.findings = load_findings()
        self.assumptions = []
        self.exhaustive = None

    @property
    def quick(self):
        return self.tier == "quick"

    # ---- coverage accounting -------------------------------------------------
    def count_case(self, key, nontrivial=True):
        """Measured counting of cases: evaluations += 1; distinct_nontrivial counts distinct
        hashes of cases that are non-trivial by the driver's rule."""
        self.cov["evaluations"] += 1
        if nontrivial:
            h = hashlib.blake2b(repr(key).encode(), digest_size=8).digest()
            if h not in self._seen:
                self._seen.add(h)
                self.cov["distinct_nontrivial"] += 1

    def add_mc(self, name, res, note="", count=True):
        if count:
            self.cov["states"] += res.distinct
            self.cov["transitions"] += res.generated
        self.cov["stages"].append({"stage": name, "distinct_states": res.distinct, "states_generated": res.generated,
                                   "depth": res.depth, "wall_s": round(res.wall, 2), "note": note,
                                   "action_coverage": dict(sorted(res.coverage.items())[:60]) if res.coverage else {}})

    def sample(self, s, limit=6):
        if len(self.cov["samples"]) < limit:
            self.cov["samples"].append(s)

    # ---- verdicts --------------------------------------------------------------
    def violation(self, clause, where, detail=None):
        """Record a rejected case. If it matches a known finding it is reported as such."""
        v = {"clause": str(clause), "where": str(where), "detail": detail}
        for f in self.findings:
            if f.get("status") != "known" or f.get("property") != self.pid:
                continue
            m = f.get("match", {})
            if all(re.search(m[k], v.get(k, "")) for k in m):
                self.known_hits.setdefault(f["id"], [f, 0])
                self.known_hits[f["id"]][1] += 1
                return False
        self.violations.append(v)
        return True

    def canary(self, name, rejected):
        self.cov["canaries"].append({"canary": name, "rejected": bool(rejected)})
        if not rejected:
            raise MachineryError("canary %s was ACCEPTED: the binding is vacuous" % name)

    def finish(self, level="model_checking", rule="", explanation="", extra=None):
        wall = time.time() - self.t0
        cov = self.cov
        cov["rule"] = rule
        cov["explanation"] = explanation
        if self.exhaustive is not None:
            cov["exhaustive"] = bool(self.exhaustive)
        if extra:
            cov.update(extra)
        if not cov["samples"]:
            cov["samples"] = ["(no sample recorded)"]
        cov["known_findings_seen"] = [{"id": k, "count": v[1]} for k, v in self.known_hits.items()]
        ev = {"property_id": self.pid, "tier": self.tier, "seed": self.seed, "level": level, "coverage": cov,
              "assumptions": self.assumptions, "wall_s": round(wall, 2), "violations": len(self.violations)}
        evdir = os.path.join(VERIF, "evidence")
        if os.environ.get("RV_NO_EVIDENCE"):       # development runs against a modified tree (tools/seed.py)
            evdir = os.path.join(VERIF, ".work", "evidence-scratch")
        os.makedirs(evdir, exist_ok=True)
        with open(os.path.join(evdir, self.pid + ".json"), "w") as f:
            json.dump(ev, f, indent=1, sort_keys=True, default=str)
        for f in self.findings:        # every listed known finding of this property is reported, with the number of cases met in this run
            if f.get("status") == "known" and f.get("property") == self.pid:
                n = self.known_hits.get(f["id"], [f, 0])[1]
                print("KNOWN-FINDING: property=%s %s (%s; %d case(s) this run)" % (self.pid, f["what"], f["id"], n))
        rc = 0
        if self.violations:
            rdir = os.path.join(VERIF, ".work", "replay-scratch") if os.environ.get("RV_NO_EVIDENCE") else os.path.join(VERIF, "replay")
            os.makedirs(rdir, exist_ok=True)
            path = os.path.join(rdir, "%s-%s-%d.json" % (self.pid, self.tier, self.seed))
            with open(path, "w") as f:
                json.dump({"property": self.pid, "tier": self.tier, "seed": self.seed,
                           "violations": self.violations[:50], "total": len(self.violations)}, f, indent=1, default=str)
            for v in self.violations[:10]:
                print("  rejected: clause=%s where=%s %s" % (v["clause"], v["where"], json.dumps(v["detail"], default=str)[:600]))
            print("VIOLATION property=%s replay=%s" % (self.pid, path))
            rc = 1
        else:
            print("OK property=%s tier=%s seed=%d states=%d transitions=%d traces=%d evaluations=%d wall=%.1fs" % (
                self.pid, self.tier, self.seed, cov["states"], cov["transitions"],
                cov["traces_validated_against_impl"], cov["evaluations"], wall))
        self.cleanup()
        return rc

    def cleanup(self):
        if not os.environ.get("RV_KEEP_WORK"):
            shutil.rmtree(self.work, ignore_errors=True)


def load_findings():
    p = os.path.join(VERIF, "known_findings.json")
    if not os.path.exists(p):
        return []
    with open(p) as f:
        return json.load(f)["findings"]


def dump_json(path, obj):
    with open(path, "w") as f:
        json.dump(obj, f, separators=(",", ":"))

"""Independent walk of /repo/specs/fileformat.yaml -> specdata.json (read by the TLA+ specs).

Uses only PyYAML.  Does NOT import rv, genrv, or the code generator's templates: the naming
rules the generator applies (enum member mangling, `in` -> `in_`) are restated here, so that a
fault in the generator or in a generated class is a disagreement with this file."""
import json
import os

import yaml

from .common import REPO


def enumname(k):
    k = str(k)
    for a, b in (("/", "_div_"), ("*", "_mul_"), (".", "_"), ("+", "_plus_"), ("-", "_neg_"), ("^", "_pow_")):
        k = k.replace(a, b)
    if k[0].isdigit():
        k = "_" + k
    elif k[0] == "_":
        k = k[1:]
    while "__" in k:
        k = k.replace("__", "_")
    return k.lower()


def build(path=None):
    path = path or os.path.join(REPO, "specs", "fileformat.yaml")
    with open(path) as f:
        y = yaml.safe_load(f)
    out = {}
    for tname, t in y["module_types"].items():
        mtype = t.get("type") or tname
        enums = {en: [[enumname(k), int(v)] for k, v in e.items()] for en, e in (t.get("enums") or {}).items()}

        def member(en, key):
            for n, v in enums[en]:
                if n == enumname(key):
                    return v
            raise KeyError((tname, en, key))
        ctls = []
        raw = []
        for d in t.get("controllers") or []:
            for k, v in d.items():
                raw.append((k, v))
        for k, v in raw:
            c = {"name": "in_" if k == "in" else k, "kind": "", "min": 0, "max": 0, "default": 0, "members": [],
                 "dep": 0, "ranges": [], "defrange": [0, 0], "attached": bool(v.get("attached", True))}
            if "min" in v and "max" in v:
                c["kind"] = "compact" if v.get("compact") else "nooffset" if v.get("no_offset") else "range"
                c["min"], c["max"], c["default"] = int(v["min"]), int(v["max"]), int(v["default"])
            elif "enum" in v:
                c["kind"] = "enum"
                c["members"] = enums[v["enum"]]
                c["default"] = member(v["enum"], v["default"])
            elif "bool" in v:
                c["kind"] = "bool"
                c["default"] = int(bool(v["default"]))
            elif "depends_on" in v:
                c["kind"] = "dep"
                c["default"] = int(v["default"])
                uidx = [kk for kk, _ in raw].index(v["depends_on"])
                c["dep"] = uidx + 1
                uen = raw[uidx][1]["enum"]
                c["ranges"] = [[member(uen, u), int(r["min"]), int(r["max"])] for u, r in v["ranges"].items()]
                first = list(v["ranges"].values())[0]
                c["defrange"] = [int(first["min"]), int(first["max"])]
            else:
                raise ValueError("unknown controller form %s.%s" % (tname, k))
            ctls.append(c)
        opts = []
        for d in t.get("options") or []:
            for k, v in d.items():
                dv = v.get("default")
                if v.get("enum"):
                    dv = member(v["enum"], dv)
                opts.append({"name": k, "byte": int(v["byte"]), "bit": int(v["bit"]), "size": int(v["size"]),
                             "default": int(dv), "inverted": bool(v.get("inverted")),
                             "hasmm": ("min" in v and "max" in v), "min": int(v.get("min", 0)), "max": int(v.get("max", 0)),
                             "exclusive_of": list(v.get("exclusive_of", [])),
                             "number": int(v.get("number", 0) or 0), "hasnumber": v.get("number") is not None,
                             "isenum": bool(v.get("enum")),
                             "members": enums[v["enum"]] if v.get("enum") else []})
        arrays = []
        for ch in t.get("chunks") or []:
            if ch.get("parent_type") == "Array":
                ln = int(ch["length"]) if ch.get("length") else (len(ch["default"]) if isinstance(ch.get("default"), list) else 0)
                df = ch.get("default")
                if isinstance(df, list):
                    en = enums.get(ch.get("enum")) if ch.get("enum") else None
                    dl = [int(x) if not isinstance(x, str) else member(ch["enum"], x) for x in df]
                elif isinstance(df, (int, float)) and not isinstance(df, bool):
                    dl = [int(df)] * ln
                else:
                    dl = [0] * ln
                arrays.append({"name": ch["name"], "chnm": int(ch.get("chnm", 0)), "etype": ch["element_type"],
                               "length": ln, "default": dl})
        out[mtype] = {"mtype": mtype, "mtypeb": list(mtype.encode("utf8")), "cls": tname, "group": t.get("group") or "",
                      "flags": int(t.get("defaultFlags") or 0), "ctls": ctls, "opts": opts,
                      "options_chnm": int(t.get("options_chnm", 0) or 0), "arrays": arrays}
    return out


def write(ctx):
    """Regenerate specdata.json from /repo's YAML into the run's work directory; returns (path, data)."""
    data = build()
    path = os.path.join(ctx.work, "specdata.json")
    with open(path, "w") as f:
        json.dump(data, f, separators=(",", ":"))
    return path, data

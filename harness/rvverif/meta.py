"""Projection of the import-time module registry (rv.modules.MODULE_CLASSES, cls.controllers,
cls.options) into the schema of specdata.json.  Plain public attributes only."""
from enum import Enum


def _val(v):
    if isinstance(v, Enum):
        return int(v.value)
    if isinstance(v, bool):
        return int(v)
    return int(v) if v is not None else 0


def project_class(cls):
    from rv.controller import CompactRange, DependentRange, NoOffsetRange, Range, WarnOnlyRange
    try:
        inst = cls()
    except Exception:
        inst = None
    names = list(cls.controllers)
    ctls = []
    for name, c in cls.controllers.items():
        d = {"name": name, "number": c.number, "kind": "?", "min": 0, "max": 0, "default": 0, "members": [],
             "dep": 0, "ranges": [], "defrange": [0, 0], "attached": bool(c.attached(inst)) if inst is not None else True}
        vt = c.value_type
        if isinstance(vt, DependentRange):
            d["kind"] = "dep"
            d["dep"] = names.index(vt.ctl_name) + 1 if vt.ctl_name in names else 0
            d["ranges"] = [[_val(k), r.min, r.max] + ([] if type(r) is WarnOnlyRange else ["not-warn-only"])
                           for k, r in vt.range_map.items()]
            d["defrange"] = [vt.default.min, vt.default.max]
            d["default"] = _val(c.default)
        elif isinstance(vt, Range):
            d["kind"] = {Range: "range", CompactRange: "compact", NoOffsetRange: "nooffset",
                         WarnOnlyRange: "warn"}.get(type(vt), "?" + type(vt).__name__)
            d["min"], d["max"], d["default"] = vt.min, vt.max, _val(c.default)
        elif vt is bool:
            d["kind"] = "bool"
            d["default"] = _val(c.default)
        elif isinstance(vt, type) and issubclass(vt, Enum):
            d["kind"] = "enum"
            d["members"] = [[m.name, int(m.value)] for m in vt]
            d["default"] = _val(c.default)
        ctls.append(d)
    opts = []
    for name, o in cls.options.items():
        en = isinstance(o.default, Enum)
        opts.append({"name": o.name, "attr": name, "byte": o.byte, "bit": o.bit, "size": o.size, "default": _val(o.default),
                     "inverted": bool(o.inverted), "hasmm": o.min is not None and o.max is not None,
                     "min": _val(o.min), "max": _val(o.max), "exclusive_of": list(o.exclusive_of),
                     "number": _val(o.number), "hasnumber": o.number is not None, "isenum": en,
                     "members": [[m.name, int(m.value)] for m in type(o.default)] if en else []})
    return {"mtype": cls.mtype, "mtypeb": list(cls.mtype.encode("utf8")), "cls": cls.__name__, "group": cls.mgroup or "",
            "flags": int(cls.default_flags), "ctls": ctls, "opts": opts, "options_chnm": int(cls.options_chnm),
            "fresh_name": (inst.name if inst is not None else ""), "constructible": inst is not None}


def registry():
    import rv.modules
    return {k: project_class(c) for k, c in rv.modules.MODULE_CLASSES.items()}

"""./check <ID> [--tier quick|thorough] [--replay path]

exit 0: property held on everything explored (KNOWN-FINDING lines do not change this)
exit 1: VIOLATION property=<id> replay=<path>
exit 2: machinery failure (TLC evaluation error, accepted canary, timeout) - never a violation
"""
import argparse
import importlib
import json
import os
import sys
import traceback

from . import common
from .tlc import TLCError


def main(argv=None):
    ap = argparse.ArgumentParser()
    ap.add_argument("pid")
    ap.add_argument("--tier", default=os.environ.get("VERIF_TIER", "quick"), choices=["quick", "thorough"])
    ap.add_argument("--replay", default=None)
    ap.add_argument("--seed", type=int, default=None)
    a = ap.parse_args(argv)
    seed = a.seed if a.seed is not None else int(os.environ.get("VERIF_SEED", "0") or 0)
    pid = a.pid.upper()
    if pid == "SETUP":
        from . import setup
        return setup.main()
    common.setup_repo_path()
    if a.replay:
        with open(a.replay) as f:
            r = json.load(f)
        seed, tier = r.get("seed", seed), r.get("tier", a.tier)
        a.tier = tier
    ctx = common.Ctx(pid, a.tier, seed, replay=a.replay)
    try:
        drv = importlib.import_module("rvverif.drivers." + pid.lower())
        drv.run(ctx)
        rc = ctx.finish(**getattr(drv, "EVIDENCE", {}))
    except (TLCError, common.MachineryError) as e:
        print("MACHINERY-FAILURE property=%s: %s" % (pid, str(e)[:1500]))
        if ctx.violations:          # rejections recorded by earlier stages stand on their own
            return ctx.finish(**getattr(drv, "EVIDENCE", {}))
        if not os.environ.get("RV_KEEP_WORK"):
            ctx.cleanup()
        return 2
    except Exception:
        traceback.print_exc()
        print("MACHINERY-FAILURE property=%s: unexpected harness exception" % pid)
        if ctx.violations:
            return ctx.finish(**getattr(drv, "EVIDENCE", {}))
        if not os.environ.get("RV_KEEP_WORK"):
            ctx.cleanup()
        return 2
    return rc


if __name__ == "__main__":
    sys.exit(main())

"""Projection of real rv objects to the abstract JSON tree the TLA+ format spec talks about.

Rules (DESIGN.md 2.1): plain public attributes only; NEVER a library serializer (`cmid_data`,
`raw_data`, `bytes`, `get_raw`, `chdt`, `read`, `chunks`).  No knowledge of chunk ids, widths,
offsets or ordering lives here.  Conventions: unsigned 32-bit fields as 16-bit limbs [lo, hi];
text as UTF-8 byte lists; optionals as lists of length 0/1; empty slots {"kind": "none"};
enums/bools as ints; 32-bit floats as 4 opaque bytes (IEEE packing by Python's struct)."""
import struct
from enum import Enum


def iv(v):
    if isinstance(v, Enum):
        return int(v.value)
    if isinstance(v, bool):
        return int(v)
    if v is None:
        return 0
    return int(v)


OVERFLOWS = []          # values that do not fit the 32-bit field they belong to (TLC integers are 32-bit)


def pop_overflows():
    out = list(OVERFLOWS)
    del OVERFLOWS[:]
    return out


def si(v, what="signed field"):
    """A signed 32-bit quantity; anything wider is recorded (and reported by the trace spec) instead of wrapping silently."""
    v = iv(v)
    if not -2 ** 31 <= v < 2 ** 31:
        OVERFLOWS.append("%s=%d" % (what, v))
        return 2 ** 31 - 1 if v > 0 else -2 ** 31
    return v


def L(v):
    v = iv(v)
    if not 0 <= v < 2 ** 32:
        OVERFLOWS.append("unsigned field=%d" % v)
    return [v % 65536, (v // 65536) % 65536]


def B(s):
    if s is None:
        return []
    if isinstance(s, (bytes, bytearray)):
        return list(s)
    return list(str(s).encode("utf8"))


def opt_text(s):
    return [] if s is None else [B(s)]


ARRAY_ATTRS = {   # YAML chunk name -> attribute holding the ArrayChunk on the module instance
    "MultiSynth": {"note_velocity_curve": "nv_curve", "velocity_velocity_curve": "vv_curve", "note_pitch_curve": "np_curve"},
    "MultiCtl": {"curve": "curve"},
    "SpectraVoice": {"harmonic_freqs": "harmonic_freqs", "harmonic_volumes": "harmonic_volumes",
                     "harmonic_widths": "harmonic_widths", "harmonic_types": "harmonic_types"},
    "WaveShaper": {"curve": "curve"},
}


def cmid(m):
    return [iv(m.message_type), int(m.channel), iv(m.slope), int(m.message_parameter)]


def envelope(e):
    return {"enable": iv(e.enable), "sustain": iv(e.sustain), "loop": iv(e.loop), "ctl_index": int(e.ctl_index),
            "gain_pct": int(e.gain_pct), "velocity": int(e.velocity), "sustain_point": int(e.sustain_point),
            "loop_start_point": int(e.loop_start_point), "loop_end_point": int(e.loop_end_point),
            "points": [[int(x), int(y)] for x, y in e.points]}


def sample(s):
    if s is None:
        return []
    return [{"data": list(s.data), "loop_start": L(s.loop_start), "loop_len": L(s.loop_len), "volume": int(s.volume),
             "finetune": int(s.finetune), "format": iv(s.format), "channels": iv(s.channels), "rate": L(s.rate),
             "loop_type": iv(s.loop_type), "loop_sustain": iv(s.loop_sustain), "panning": int(s.panning),
             "relative_note": int(s.relative_note), "reserved2": int(s.reserved2), "name": B(s.name),
             "start_pos": L(s.start_pos), "frames": L(s.frames)}]


def payload(mod, spec, ld=False):
    t = mod.mtype
    if t == "Sampler":
        return {"k": "sampler",
                "samples": [sample(s) for s in mod.samples],
                "envs": [envelope(mod.volume_envelope), envelope(mod.panning_envelope), envelope(mod.pitch_envelope)]
                        + [envelope(e) for e in mod.effect_control_envelopes],
                "note_samples": [iv(v) for v in mod.note_samples.values()],
                "vibrato_type": iv(mod.vibrato_type), "vibrato_attack": iv(mod.vibrato_attack),
                "vibrato_depth": iv(mod.vibrato_depth), "vibrato_rate": iv(mod.vibrato_rate),
                "volume_fadeout": iv(mod.volume_fadeout),
                "instrument_name": B(mod.instrument_name), "version": L(mod.version), "max_version": L(mod.max_version),
                "unused1": L(mod.unused1), "unused2": int(mod.unused2), "unused3": int(mod.unused3), "unused4": L(mod.unused4),
                "unused5": int(mod.unused5), "unused6": L(mod.unused6), "volume_old": int(mod.volume_old),
                "ins_finetune": int(mod.ins_finetune), "ins_relative_note": int(mod.ins_relative_note),
                "editor_cursor": si(mod.editor_cursor, "editor_cursor"), "editor_selected_size": si(mod.editor_selected_size, "editor_selected_size"),
                "effect": [] if mod.effect is None else [project_any(mod.effect, spec, ld)],
                "is_legacy": bool(mod.is_legacy)}
    if t == "MetaModule":
        n = len(mod.user_defined)
        return {"k": "meta", "project": project_any(mod.project, spec, ld),
                "mappings": [[int(x.module), int(x.controller)] for x in mod.mappings.values],
                "labels": [opt_text(c.label) for c in mod.user_defined],
                "attached": [iv(c.attached(mod)) for c in mod.user_defined],
                "udvals": [iv(mod.controller_values.get("user_defined_%d" % (i + 1), 0)) for i in range(n)],
                "udcmid": [cmid(mod.controller_midi_maps["user_defined_%d" % (i + 1)]) for i in range(n)]}
    if t in ("Analog generator", "Generator"):
        w = mod.drawn_waveform
        return {"k": "wave", "samples": [int(x) for x in w.samples], "format": iv(w.format), "freq": L(w.freq)}
    if t == "FMX":
        return {"k": "fmx", "custom_waveform": [list(struct.pack("<f", float(x))) for x in mod.custom_waveform.values]}
    if t == "Vorbis player":
        return {"k": "vorbis", "data": B(mod.data)}
    if t == "MultiCtl":
        return {"k": "multictl", "curve": [int(x) for x in mod.curve.values],
                "mappings": [[L(x.min), L(x.max), L(x.controller), L(x.flags), L(x.future_use2), L(x.future_use3),
                              L(x.future_use4), L(x.future_use5)] for x in mod.mappings.values]}
    if t in ARRAY_ATTRS:
        return {"k": "arrays", "arrays": [[name, [iv(x) for x in getattr(mod, attr).values]] for name, attr in ARRAY_ATTRS[t].items()]}
    return {"k": "none"}


def vis_fields(v):
    """the public sub-fields of the visualization word (-1 where an enumeration getter refuses the bits)"""
    out = []
    for name in ("level_mode", "orientation", "oscilloscope_mode", "oscilloscope_size", "bg_transparency", "shadow_opacity"):
        try:
            out.append(int(getattr(v, name)))
        except Exception:
            out.append(-1)
    return out


def module(mod, spec, ld=False):
    if mod is None:
        return {"kind": "none"}
    st = spec.get(mod.mtype)
    names = [c["name"] for c in st["ctls"]] if st else []
    attached = [n for n in names]
    d = {"kind": "module", "mtype": mod.mtype, "name": B(mod.name), "flags": L(mod.flags),
         "fin": si(mod.mod_finetune, "finetune"), "rel": si(mod.mod_relative_note, "relative_note"), "x": si(mod.x, "module.x"), "y": si(mod.y, "module.y"),
         "layer": si(mod.layer, "layer"), "scale": L(mod.scale), "vis": L(int(mod.visualization)), "visf": vis_fields(mod.visualization), "color": [int(c) for c in mod.color],
         "midi_in_always": iv(mod.midi_in_always), "midi_in_channel": si(mod.midi_in_channel, "midi_in_channel"),
         "moname": opt_text(mod.midi_out_name), "moch": si(mod.midi_out_channel, "midi_out_channel"), "mobank": si(mod.midi_out_bank, "midi_out_bank"),
         "moprog": si(mod.midi_out_program, "midi_out_program"),
         "inl": [si(x, "link") for x in mod.in_links], "ins": [si(x, "link") for x in mod.in_link_slots],
         "outl": [si(x, "link") for x in mod.out_links], "outs": [si(x, "link") for x in mod.out_link_slots],
         "ctl": [si(mod.controller_values[n], "controller " + n) for n in attached],
         "cmid": [cmid(mod.controller_midi_maps[n]) for n in attached],
         "opts": [[n, iv(getattr(mod, n))] for n in (o["name"] for o in (st["opts"] if st else []))],   # YAML order
         "payload": payload(mod, spec, ld)}
    return d


def pattern(p):
    import rv.api as api
    if p is None:
        return {"kind": "none"}
    if isinstance(p, api.PatternClone):
        return {"kind": "clone", "source": L(p.source), "flags": L(p.flags_PFFF), "x": si(p.x, "clone.x"), "y": si(p.y, "clone.y")}
    return {"kind": "pattern", "name": opt_text(p.name), "tracks": L(p.tracks), "lines": L(p.lines), "ysize": L(p.y_size),
            "pflg": L(p.flags_PFLG), "icon": list(p.icon), "fg": [int(c) for c in p.fg_color], "bg": [int(c) for c in p.bg_color],
            "flags": L(p.flags_PFFF), "x": si(p.x, "pattern.x"), "y": si(p.y, "pattern.y"),
            "cells": [[iv(n.note), int(n.vel), int(n.module), int(n.ctl), int(n.val)] for line in p.data for n in line]}


def project(p, spec, loaded=False):
    return {"kind": "project",
            "proj": {"vers": [int(x) for x in (p.loaded_sunvox_version if loaded else p.sunvox_version)],
                     "bver": [int(x) for x in p.based_on_version],
                     "flags": L(p.flags), "syncmidi": iv(p.receive_sync_midi), "syncother": iv(p.receive_sync_other),
                     "bpm": L(p.initial_bpm), "tpl": L(p.initial_tpl), "tgrd": L(p.time_grid), "tgd2": L(p.time_grid2),
                     "gvol": L(p.global_volume), "name": B(p.name), "mscl": L(p.modules_scale), "mzoo": L(p.modules_zoom),
                     "mxof": si(p.modules_x_offset, "modules_x_offset"), "myof": si(p.modules_y_offset, "modules_y_offset"), "lmsk": L(p.modules_layer_mask),
                     "curl": L(p.modules_current_layer), "time": si(p.timeline_position, "timeline_position"), "reps": si(p.restart_position, "restart_position"),
                     "sels": L(p.selected_module), "lgen": si(p.selected_generator, "selected_generator"), "patn": L(p.current_pattern),
                     "patt": L(p.current_track), "patl": L(p.current_line)},
            "patterns": [pattern(x) for x in p.patterns],
            "modules": [module(x, spec, loaded) for x in p.modules]}


def synth(s, spec, loaded=False):
    return {"kind": "synth", "vers": [int(x) for x in (s.loaded_sunsynth_version if loaded else s.sunsynth_version)],
            "module": [] if s.module is None else [module(s.module, spec, loaded)]}


def project_any(o, spec, loaded=False):
    import rv.api as api
    if o is None:
        return {"kind": "none"}
    if isinstance(o, api.Synth):
        return synth(o, spec, loaded)
    return project(o, spec, loaded)

"""Thin wrapper around TLC 1.8 (tla2tools.jar).  TLC is the judge; this module only
starts it, bounds it with a timeout, and parses its statistics and the JSON lines that
the specifications print with PrintT(ToJson(..))."""
import json
import os
import re
import subprocess
import time

JAR = "/opt/veriftools/tla/tla2tools.jar:/opt/veriftools/tla/CommunityModules-deps.jar"
SPEC_DIR = os.path.join(os.path.dirname(os.path.dirname(os.path.dirname(os.path.abspath(__file__)))), "spec")

_JSON_STR = re.compile(r'^"(\{.*\})"\s*$')


class TLCError(Exception):
    """Machinery failure (evaluation error, parse error, timeout) -- never a violation."""


class TLCResult:
    def __init__(self):
        self.out = ""
        self.generated = 0
        self.distinct = 0
        self.depth = 0
        self.msgs = []          # decoded JSON objects printed by the spec
        self.invariant_violated = None
        self.property_violated = None
        self.error = None
        self.wall = 0.0
        self.coverage = {}
        self.counterexample = ""

    def by(self, key, value):
        return [m for m in self.msgs if m.get(key) == value]


def _decode(line):
    m = _JSON_STR.match(line)
    if not m:
        return None
    try:
        return json.loads(json.loads('"' + m.group(1) + '"'))
    except Exception:
        try:   # TLC prints strings with its own escaping; try a direct parse
            return json.loads(m.group(1).replace('\\"', '"').replace("\\\\", "\\"))
        except Exception as e:  # pragma: no cover
            raise TLCError("cannot parse spec message: %s (%s)" % (line[:200], e))


def _parse(out, res):
    m = None
    for m in re.finditer(r"(\d+) states generated, (\d+) distinct states found", out):
        pass
    if m:
        res.generated, res.distinct = int(m.group(1)), int(m.group(2))
    m = re.search(r"The depth of the complete state graph search is (\d+)", out)
    if m:
        res.depth = int(m.group(1))
    m = re.search(r"Invariant (\S+) is violated", out)
    if m:
        res.invariant_violated = m.group(1)
    m = re.search(r"Action property (\S+) is violated|Temporal properties were violated", out)
    if m:
        res.property_violated = m.group(1) or "temporal"
    if res.invariant_violated or res.property_violated:
        i = out.find("Error:")
        res.counterexample = out[i:i + 6000]
    for m in re.finditer(r"<(\w+) line (\d+), col \d+ to line \d+, col \d+ of module (\w+)>: (\d+):(\d+)", out):
        res.coverage[m.group(1)] = res.coverage.get(m.group(1), 0) + int(m.group(5))
    # evaluation errors etc.
    if re.search(r"Error: |TLC threw an unexpected exception|Parsing or semantic analysis failed|"
                 r"was violated by the initial state|Deadlock reached", out) and not (
            res.invariant_violated or res.property_violated):
        i = out.find("Error:")
        res.error = out[i if i >= 0 else 0:][:3000]


def run(module, cfg_text, workdir, env=None, workers=16, timeout=600, simulate=None,
        coverage=False, xmx="12g", depth_first=False, seed=None, name=None, on_msg=None, extra_args=None):
    """Run TLC on spec/<module>.tla with the given cfg text.  Returns TLCResult.
    Raises TLCError on machinery failure."""
    os.makedirs(workdir, exist_ok=True)
    name = name or module
    cfg = os.path.join(workdir, name + ".cfg")
    with open(cfg, "w") as f:
        f.write(cfg_text)
    meta = os.path.join(workdir, "meta_" + name)
    jopts = ["-XX:+UseParallelGC", "-Xmx" + xmx, "-Xss64m"]
    if depth_first:
        jopts.append("-Dtlc2.tool.queue.IStateQueue=StateDeque")
    cmd = ["java"] + jopts + ["-cp", JAR, "tlc2.TLC", "-workers", str(workers), "-metadir", meta,
                              "-noGenerateSpecTE", "-config", cfg]
    if coverage:
        cmd += ["-coverage", "1"]
    if simulate:
        cmd += ["-simulate", simulate]
    if seed is not None:
        cmd += ["-seed", str(seed)]
    if extra_args:
        cmd += list(extra_args)
    cmd.append(os.path.join(SPEC_DIR, module + ".tla"))
    e = dict(os.environ)
    e.pop("JAVA_TOOL_OPTIONS", None)
    if env:
        e.update({k: str(v) for k, v in env.items()})
    outp = os.path.join(workdir, name + ".out")
    t0 = time.time()
    with open(outp, "w") as fo:
        try:
            p = subprocess.run(cmd, cwd=workdir, env=e, stdout=fo, stderr=subprocess.STDOUT, timeout=timeout)
        except subprocess.TimeoutExpired:
            raise TLCError("TLC timeout after %ss on %s" % (timeout, name))
    res = TLCResult()
    res.wall = time.time() - t0
    rest = []
    with open(outp, errors="replace") as fo:
        for line in fo:
            if line.startswith('"{'):
                msg = _decode(line)
                if msg is not None:
                    if on_msg is not None:
                        on_msg(msg)
                    else:
                        res.msgs.append(msg)
                    continue
            rest.append(line)
    res.out = "".join(rest)
    _parse(res.out, res)
    if res.error:
        raise TLCError("TLC error in %s: %s" % (name, res.error))
    if "Model checking completed" not in res.out and not simulate and not (
            res.invariant_violated or res.property_violated):
        raise TLCError("TLC did not complete on %s: %s" % (name, res.out[-2000:]))
    return res


def sany(module):
    cmd = ["java", "-cp", JAR, "tla2sany.SANY", os.path.join(SPEC_DIR, module + ".tla")]
    p = subprocess.run(cmd, cwd=SPEC_DIR, stdout=subprocess.PIPE, stderr=subprocess.STDOUT, text=True, timeout=120)
    ok = p.returncode == 0 and "*** Errors" not in p.stdout and "Fatal errors" not in p.stdout \
        and "Could not find module" not in p.stdout and "***Parse Error***" not in p.stdout
    return ok, p.stdout

"""Drivers shared by C07 and C08: real Project objects driven along RVLinks behaviours.

mode A  TLC explores MC_RVLinks exhaustively and emits transitions (pre, request, allowed
        posts); each is executed on a real project put into the pre state through the public
        link lists, and the resulting four tables are compared literally with the spec's posts.
mode B  random histories on real projects (mixed module types, list operands, operators,
        chaining, foreign modules, interleaved save/load under several SLnK variants) are
        recorded and validated by Trace_RVLinks."""
import io
import json
import os
import struct

from . import tlc, trace
from .common import MachineryError
from . import tlv

TABLES = (("inl", "in_links"), ("ins", "in_link_slots"), ("outl", "out_links"), ("outs", "out_link_slots"))


def _rv():
    import rv.api as api
    from rv.modules.module import ModuleList
    from rv.errors import ModuleOwnershipError
    return api, ModuleList, ModuleOwnershipError


def simple_classes():
    api, _, _ = _rv()
    out = []
    for name, cls in sorted(api.m.MODULE_CLASSES.items()):
        if name == "Output":
            continue
        out.append(cls)
    return out


def make_project(n, rnd=None, classes=None):
    api, _, _ = _rv()
    p = api.Project()
    classes = classes or [api.m.Amplifier]
    for i in range(n - 1):
        cls = rnd.choice(classes) if rnd else classes[i % len(classes)]
        p.attach_module(cls())
    return p


def _entry(x):
    # a table entry that is not an integer (e.g. None) can never be right; it is logged as a value no module index has
    return int(x) if isinstance(x, int) and not isinstance(x, bool) and abs(x) < 2 ** 30 else -999


def get_tables(p):
    return {k: [[_entry(x) for x in getattr(m, a)] for m in p.modules if m is not None] for k, a in TABLES}


def set_tables(p, t):
    for k, a in TABLES:
        for m, v in zip(p.modules, t[k]):
            setattr(m, a, list(v))


def operand(p, ops, foreign, as_list):
    """Build the Python operand for a spec operand (sequence of {m, neg})."""
    objs = []
    for o in ops:
        mod = p.modules[o["m"]] if 0 <= o["m"] < len(p.modules) else foreign
        x = mod
        for _ in range(o.get("inv", 1 if o["neg"] else 0)):      # ~ applied inv times (~~m is m again, ~~~m is ~m)
            x = ~x
        objs.append(x)
    if len(objs) == 1 and not as_list:
        return objs[0]
    return objs


def request(p, via, A, B, foreign, toggle=0, C=None):
    """Execute one request on the real project; return outcome string."""
    api, ModuleList, ModuleOwnershipError = _rv()
    from rv.modules.module import DisconnectingModule, Module
    a = operand(p, A, foreign, as_list=bool(toggle & 1))
    b = operand(p, B, foreign, as_list=bool(toggle & 2))

    def lhs(x):   # operators need a Module or ModuleList on the left
        if isinstance(x, Module):
            # a module of another project on the left would address that project's connect();
            # the request under test is one made to p
            return x if x.parent is p else ModuleList(p, [x])
        if isinstance(x, DisconnectingModule):
            return ModuleList(p, [x])
        return ModuleList(p, x)
    try:
        if via == "method":
            p.connect(a, b)
        elif via == "rshift":
            r = lhs(a) >> b
            if isinstance(b, list):
                if list(r) != list(b) or not isinstance(r, ModuleList):
                    return "bad-return-value"
            elif r is not b:
                return "bad-return-value"
        elif via == "lshift":
            r = lhs(a) << b
            if isinstance(b, list):
                if list(r) != list(b) or not isinstance(r, ModuleList):
                    return "bad-return-value"
            elif r is not b:
                return "bad-return-value"
        elif via == "chain":
            c = operand(p, C, foreign, as_list=bool(toggle & 4))
            lhs(a) >> (b if not isinstance(b, DisconnectingModule) else [b]) >> c
        else:
            raise MachineryError("unknown via " + via)
    except ModuleOwnershipError:
        return "ModuleOwnershipError"
    except MachineryError:
        raise
    except Exception as e:  # any other exception is an outcome the spec does not allow
        return "exception:" + type(e).__name__
    return "ok"


# ------------------------------------------------------------------ mode A
def mc_cfg(n, maxlen, shapes, emitk, emitsel, invariants, statek=1):
    return ("CONSTANTS N = %d MaxLen = %d Shapes = \"%s\" EmitK = %d EmitSel = %d StateK = %d\n" % (
        n, maxlen, shapes, emitk, emitsel, statek)
            + "INIT Init\nNEXT Next\nCONSTRAINT Bound\nCHECK_DEADLOCK FALSE\n"
            + "".join("INVARIANT %s\n" % i for i in invariants))


INVS_QUICK = ["ConsistentNow", "RTCanonical", "RTAlways", "RTNever", "RTExactIn"]
INVS_FULL = INVS_QUICK + ["RTSuperset"]


def graph_replay(ctx, n, maxlen, shapes, emitk, invariants, pid, timeout=1500, coverage=False, on_state=None, statek=1):
    """Run MC_RVLinks, then replay every emitted transition on a real project (streamed).
    on_state(pre) is called once per distinct pre state (used by C08).  Returns number replayed."""
    api, _, _ = _rv()
    name = "mc_%s_n%d_l%d" % (shapes, n, maxlen)
    p = make_project(n, classes=[api.m.Amplifier, api.m.Generator, api.m.Filter])
    other = api.Project()
    foreign_attached = other.new_module(api.m.Amplifier)
    foreign_free = api.m.Amplifier()
    other_before = get_tables(other)
    seen = set()
    cnt = [0]

    def on_msg(msg):
        if msg.get("k") == "S":
            if on_state is not None:
                on_state(msg["st"])
            return
        if msg.get("k") != "T":
            return
        cnt[0] += 1
        k = cnt[0]
        pre = msg["pre"]
        key = json.dumps(pre, sort_keys=True)
        set_tables(p, pre)
        # an unattached module has no project to resolve operators against: method calls only
        foreign = foreign_free if (k % 2 == 0 and msg["via"] == "method") else foreign_attached
        out = request(p, msg["via"], msg["A"], msg["B"], foreign, toggle=k % 4)
        post = get_tables(p)
        changed = post != pre
        ctx.count_case((key, msg["via"], json.dumps(msg["A"]), json.dumps(msg["B"])), nontrivial=changed or out != "ok")
        if out != msg["outcome"] or post not in msg["posts"]:
            clause = "outcome" if out != msg["outcome"] else "post-state"
            ctx.violation(clause, "graph-replay:%s %s A=%s B=%s" % (name, msg["via"], _ops(msg["A"]), _ops(msg["B"])),
                          {"pre": pre, "via": msg["via"], "A": msg["A"], "B": msg["B"],
                           "expected_outcome": msg["outcome"], "observed_outcome": out,
                           "expected_posts": msg["posts"], "observed_post": post})
        if k <= 1 or (changed and len(ctx.cov["samples"]) < 3):
            ctx.sample({"mode": "A", "pre": pre, "via": msg["via"], "A": msg["A"], "B": msg["B"],
                        "outcome": out, "post": post})

    res = tlc.run("MC_RVLinks", mc_cfg(n, maxlen, shapes, emitk, ctx.seed, invariants, statek), ctx.work,
                  workers=16, timeout=timeout, name=name, coverage=coverage, on_msg=on_msg)
    if res.invariant_violated:
        ctx.violation("model:" + str(res.invariant_violated), name, res.counterexample[:3000])
        return 0
    ctx.add_mc(name, res, "exhaustive within N=%d, MaxLen=%d, shapes=%s; invariants %s; 1/%d of transitions replayed" % (
        n, maxlen, shapes, ",".join(invariants), max(emitk, 1)))
    k = cnt[0]
    ctx.cov["traces_validated_against_impl"] += k
    ctx.cov["graph_replay_transitions"] = ctx.cov.get("graph_replay_transitions", 0) + k
    if k == 0 and emitk:
        raise MachineryError("no transition emitted by " + name)
    if get_tables(other) != other_before:   # the other project must never be touched
        ctx.violation("foreign-project-changed", name, get_tables(other))
    try:
        os.remove(os.path.join(ctx.work, name + ".out"))
    except OSError:
        pass
    return k


def _ops(ops):
    return "[" + ",".join(("~" if o["neg"] else "") + str(o["m"]) for o in ops) + "]"


# ------------------------------------------------------------------ save / load with SLnK variants
_SL_COUNT = [0]


def save_load(p, variant, sub=()):
    """(every third call runs with the library's loggers at DEBUG: what is loaded does not depend on the logging configuration)"""
    _SL_COUNT[0] += 1
    if _SL_COUNT[0] % 3 == 0:
        from .drivers.c11 import debug_logging
        with debug_logging():
            return _save_load(p, variant, sub)
    return _save_load(p, variant, sub)


def _save_load(p, variant, sub=()):
    """Save the real project, rewrite the optional SLnK chunks according to the variant through
    the TLV layer, load with the real reader; returns (outcome, loaded project or None)."""
    api, _, _ = _rv()
    try:
        data = p.read()
    except Exception as e:                      # a project that cannot be written is an outcome, not a harness failure
        return "save-raised:" + type(e).__name__, None
    if variant != "canonical":
        chunks = tlv.split(data)
        out = []
        mod_idx = -1
        cur_slnk = None
        for cid, payload in chunks:
            if cid == b"SFFF":
                mod_idx += 1
            if cid == b"SEND" and cur_slnk is None:
                mod_idx += 0
            if cid == b"SLnK":
                continue                         # re-decided below
            out.append((cid, payload))
            if cid == b"SLNK":
                mod = p.modules[mod_idx_of(p, mod_idx)]
                slots = list(mod.in_link_slots)
                need = any(s not in (-1, 0) for s in slots)
                has = {"always": len(slots) > 0, "never": False,
                       "superset": need or (mod.index in sub and len(slots) > 0)}[variant]
                if has:
                    out.append((b"SLnK", struct.pack("<%di" % len(slots), *slots)))
        data = tlv.join(out)
    try:
        q = api.read_sunvox_file(io.BytesIO(data))
    except Exception as e:
        return "exception:" + type(e).__name__, None
    return "ok", q


def mod_idx_of(p, k):
    """k-th non-empty module position of p (SFFF chunks appear only for existing modules)."""
    idx = [i for i, m in enumerate(p.modules) if m is not None]
    return idx[k]


# ------------------------------------------------------------------ mode B
def random_history(ctx, rnd, tid, n, length, classes, p_save=0.0, variants=("canonical",), trailing=0):
    """trailing: number of empty module positions appended behind the n modules (a save + load drops them)."""
    api, _, _ = _rv()
    p = make_project(n, rnd, classes)
    for _ in range(trailing):
        p.attach_module(None)
    other = api.Project()
    foreign_attached = other.new_module(api.m.Amplifier)
    foreign_free = api.m.Amplifier()
    events = []

    def rop(maxlen=3, allow_foreign=True):
        ln = rnd.choice([1, 1, 1, 2, 2, 3][:3 + maxlen])
        ops = []
        for _ in range(ln):
            m = rnd.randrange(n)
            if allow_foreign and rnd.random() < 0.01:
                m = -2
            x = rnd.random()
            ops.append({"m": m, "neg": x < 0.3, "inv": 3 if x < 0.03 else 1 if x < 0.3 else 2 if x > 0.95 else 0})
        return ops
    for i in range(length):
        r = rnd.random()
        if r < p_save:
            variant = rnd.choice(variants)
            sub = sorted(rnd.sample(range(n), rnd.randrange(n + 1))) if variant == "superset" else []
            out, q = save_load(p, variant, sub)
            for _ in range(trailing if q is not None and len(q.modules) == n else 0):
                q.attach_module(None)
            if q is None or len(q.modules) != n + trailing:
                events.append({"op": "saveload", "variant": variant, "sub": sub,
                               "outcome": out if q is None else "module-count", "post": get_tables(p)})
                continue
            p = q
            events.append({"op": "saveload", "variant": variant, "sub": sub, "outcome": out, "post": get_tables(p)})
            continue
        if p_save and r < p_save + 0.08:     # writing the project (or cloning it) and carrying on with the SAME object
            try:
                p.read() if rnd.random() < 0.7 else p.clone()
                out = "ok"
            except Exception as e:
                out = "save-raised:" + type(e).__name__
            events.append({"op": "save", "outcome": out, "post": get_tables(p)})
            continue
        foreign = foreign_attached
        if r < p_save + 0.16:
            A, B, C = rop(2), rop(2, False), rop(2)
            # chaining needs plain modules in the middle operand
            for o in B:
                o["neg"] = False
                o["inv"] = 0 if o.get("inv", 0) % 2 else o.get("inv", 0)
            out = request(p, "chain", A, B, foreign, toggle=rnd.randrange(8), C=C)
            events.append({"op": "chain", "A": A, "B": B, "C": C, "outcome": out, "post": get_tables(p)})
        else:
            via = rnd.choice(["method", "method", "rshift", "lshift"])
            if via == "method" and rnd.random() < 0.5:
                foreign = foreign_free
            A, B = rop(), rop()
            out = request(p, via, A, B, foreign, toggle=rnd.randrange(4))
            events.append({"op": "connect", "via": via, "A": A, "B": B, "outcome": out, "post": get_tables(p)})
    return {"id": tid, "n": n, "events": events}


def high_index_history(ctx, rnd, tid, n=300):
    """Scale in SPACE: requests between positions above 256 - each pair connected twice (the second request changes
    nothing), disconnected once, connected again; then save + load."""
    api, _, _ = _rv()
    p = make_project(n, rnd, simple_classes()[:5])
    events = []

    def one(A, B, via="method"):
        out = request(p, via, A, B, None, toggle=0)
        events.append({"op": "connect", "via": via, "A": A, "B": B, "outcome": out, "post": get_tables(p)})
    for _ in range(6):
        a, b = rnd.randrange(257, n), rnd.choice([rnd.randrange(1, 20), rnd.randrange(257, n)])
        if a == b:
            continue
        A, B, NA = [{"m": a, "neg": False}], [{"m": b, "neg": False}], [{"m": a, "neg": True}]
        one(A, B)
        one(A, B, rnd.choice(["method", "rshift"]))
        one(NA, B)
        one(A, B)
        one(B, A, "lshift")
    out, q = save_load(p, "canonical")
    events.append({"op": "saveload", "variant": "canonical", "sub": [], "outcome": out if q is None else "ok",
                   "post": get_tables(q) if q is not None and len(q.modules) == n else get_tables(p)})
    return {"id": tid, "n": n, "events": events}


def output_source_history(ctx, rnd, tid):
    """The Output (module number 0) in the role of a source: modules whose only input is the Output, through save + load
    in every slot-chunk variant."""
    api, _, _ = _rv()
    n = 5
    p = make_project(n, rnd, simple_classes()[:4])
    events = []

    def one(A, B):
        out = request(p, "method", A, B, None, toggle=0)
        events.append({"op": "connect", "via": "method", "A": A, "B": B, "outcome": out, "post": get_tables(p)})
    one([{"m": 0, "neg": False}], [{"m": 1, "neg": False}])
    one([{"m": 0, "neg": False}], [{"m": 2, "neg": False}, {"m": 3, "neg": False}])
    one([{"m": 4, "neg": False}], [{"m": 3, "neg": False}])
    one([{"m": 0, "neg": False}], [{"m": 0, "neg": False}])
    for variant in ("canonical", "never", "always"):
        out, q = save_load(p, variant)
        events.append({"op": "saveload", "variant": variant, "sub": [], "outcome": out if q is None else "ok",
                       "post": get_tables(q) if q is not None and len(q.modules) == n else get_tables(p)})
        if q is not None and len(q.modules) == n:
            p = q
    return {"id": tid, "n": n, "events": events}


def hub_history(ctx, rnd, tid, cls, fan=20):
    """One source of the given class (e.g. a MultiCtl) linked to `fan` destinations, some links freed and re-made, then
    save + load with and without slot chunks."""
    api, _, _ = _rv()
    n = fan + 3
    p = api.Project()
    hub = p.new_module(cls)
    for c in (simple_classes() * 10)[:n - 2]:
        p.new_module(c)
    events = []

    def one(A, B):
        out = request(p, "method", A, B, None, toggle=0)
        events.append({"op": "connect", "via": "method", "A": A, "B": B, "outcome": out, "post": get_tables(p)})
    one([{"m": 1, "neg": False}], [{"m": k, "neg": False} for k in range(2, 2 + fan)][:3])
    for k in range(5, 2 + fan):
        one([{"m": 1, "neg": False}], [{"m": k, "neg": False}])
    for k in rnd.sample(range(2, 2 + fan), 4):
        one([{"m": 1, "neg": True}], [{"m": k, "neg": False}])
        one([{"m": 1, "neg": False}], [{"m": k, "neg": False}])
    for variant in ("canonical", "never"):
        out, q = save_load(p, variant)
        events.append({"op": "saveload", "variant": variant, "sub": [], "outcome": out if q is None else "ok",
                       "post": get_tables(q) if q is not None and len(q.modules) == n else get_tables(p)})
        if q is not None and len(q.modules) == n:
            p = q
    return {"id": tid, "n": n, "events": events}


def long_history(ctx, rnd, tid, ncycles, save_at_end=True):
    """Scale in TIME: hundreds of connect / disconnect cycles of one pair into a destination that also holds live links
    before and behind the freed slots (slots are never reused), then save + load.  One event per batch of cycles."""
    api, _, _ = _rv()
    classes = simple_classes()[:4]
    n = 5
    p = make_project(n, rnd, classes)
    events = []

    def one(A, B):
        out = request(p, "method", A, B, None, toggle=0)
        events.append({"op": "connect", "via": "method", "A": A, "B": B, "outcome": out, "post": get_tables(p)})

    def cycles(a, b, k):
        out = "ok"
        try:
            for _ in range(k):
                p.connect(p.modules[a], p.modules[b])
                p.connect(~p.modules[a], p.modules[b])
        except Exception as e:
            out = "exception:" + type(e).__name__
        events.append({"op": "cycles", "a": a, "b": b, "n": k, "outcome": out, "post": get_tables(p)})
    one([{"m": 2, "neg": False}], [{"m": 1, "neg": False}])          # a live link in front
    cycles(3, 1, ncycles // 2)
    one([{"m": 4, "neg": False}], [{"m": 1, "neg": False}])          # a live link behind the freed slots
    cycles(3, 1, ncycles - ncycles // 2)
    one([{"m": 4, "neg": True}], [{"m": 1, "neg": False}])           # ... freed again: a long tail of freed slots
    if save_at_end:
        out, q = save_load(p, "canonical")
        events.append({"op": "saveload", "variant": "canonical", "sub": [], "outcome": out if q is None else "ok",
                       "post": get_tables(q) if q is not None and len(q.modules) == n else get_tables(p)})
        if q is not None and len(q.modules) == n:
            p = q
            one([{"m": 3, "neg": False}], [{"m": 1, "neg": False}])
    return {"id": tid, "n": n, "events": events}


def corrupt(tr, rnd):
    """Canary: copy of a trace with one recorded table entry changed."""
    c = json.loads(json.dumps(tr))
    c["id"] = str(tr["id"]) + "#canary"
    evs = [e for e in c["events"] if any(len(x) for x in e["post"]["ins"])]
    if not evs:
        return None
    e = rnd.choice(evs)
    rows = [r for r in e["post"]["ins"] if r]
    row = rnd.choice(rows)
    j = rnd.randrange(len(row))
    row[j] = row[j] + 1
    return c

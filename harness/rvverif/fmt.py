"""Event builders shared by the file-format checks (C01-C06, C15, C16): real objects are saved / loaded
with the real library, projected, and handed to Trace_RVFormat together with the TLV-split bytes."""
import glob
import io
import json
import os

from . import projection, tlv, trace
from .common import REPO, MachineryError


def load(data):
    import rv.api as api
    try:
        return "ok", api.read_sunvox_file(io.BytesIO(data))
    except Exception as e:
        return "exception:" + type(e).__name__, None


def roundtrip_event(obj, spec, w=False):
    orig = projection.project_any(obj, spec)       # the public state BEFORE saving
    projection.pop_overflows()                     # (generated inputs stay inside the documented widths)
    try:
        data = obj.read()
    except Exception as e:                         # an object that cannot be written: an outcome, not a harness failure
        return {"op": "roundtrip", "w": bool(w), "orig": orig, "chunks": [], "outcome": "save-raised:" + type(e).__name__,
                "back": {"kind": "none"}, "overflow": []}
    out, q = load(data)
    back = projection.project_any(q, spec, True) if q is not None else {"kind": "none"}
    return {"op": "roundtrip", "w": bool(w), "orig": orig, "chunks": tlv.to_json_nested(data),
            "outcome": out, "back": back, "overflow": projection.pop_overflows()}


def edit_in_place(obj, spec, rnd, nedits=6):
    """Apply up to nedits catalogued public-API edits (one per leaf kind first) to obj in place; returns the kinds applied.
    The Smooth `scale` controller is left alone (F-C09-1 / F-C06-smooth are reported by their own checks)."""
    from .drivers.c06 import catalogue
    _, leaves = catalogue(obj, spec, rnd)
    leaves = [lf for lf in leaves if not (lf[0] == "controller.range" and "Smooth" in json.dumps(_mtype_at(obj, lf[1])))]
    bykind = {}
    for lf in leaves:
        bykind.setdefault(lf[0], []).append(lf)
    kinds = sorted(bykind, key=lambda k: (not k.startswith("payload."), rnd.random()))
    done = []
    picks = [rnd.choice(bykind[k]) for k in kinds[:nedits]]
    emb = [lf for lf in leaves if "payload" in lf[1] and "project" in lf[1]]       # leaves inside an embedded project
    smp = [lf for lf in leaves if lf[0].startswith("payload.sample-")]
    for pool in (emb, smp):
        if pool:
            picks.append(rnd.choice(pool))
    for kind, pth, fn, newv in picks:
        try:
            fn(obj)
            done.append(kind)
        except Exception:
            pass
    return done


def _mtype_at(obj, path):
    """Type name of the module a catalogue path points into (for edit filters)."""
    o = obj
    try:
        if path and path[0] == "modules":
            return o.modules[path[1] - 1].mtype
        if path and path[0] == "module":
            return o.module.mtype
    except Exception:
        pass
    return ""


def chain_events(obj, spec, rnd, w=False, nedits=6, other=None):
    """History on ONE object and its reloaded copy: save; edit in place; save again (caches / memoised images must
    follow the edits); load the second file, edit the loaded copy, save (nothing of the file may be replayed).
    Each save is judged as its own round trip."""
    evs = [roundtrip_event(obj, spec, w)]
    kinds = edit_in_place(obj, spec, rnd, nedits)
    evs.append(roundtrip_event(obj, spec, w))
    try:
        out, q = load(obj.read())
    except Exception:
        q = None
    if q is not None:
        kinds += edit_in_place(q, spec, rnd, nedits)
        if other is not None:       # an unrelated object is loaded / built / saved in between
            try:
                other()
            except Exception:
                pass
        evs.append(roundtrip_event(q, spec, False))
    return evs, kinds


def clone_event(mod, spec, w=False):
    """Module.clone(): judged as a stand-alone synth round trip of the module."""
    import rv.api as api
    s = api.Synth(mod)
    data = s.read()
    try:
        c = mod.clone()
        out = "ok"
        back = {"kind": "synth", "vers": [int(x) for x in s.sunsynth_version], "module": [projection.module(c, spec, True)]}
    except Exception as e:
        out, back = "exception:" + type(e).__name__, {"kind": "none"}
    return {"op": "roundtrip", "w": bool(w), "orig": projection.project_any(s, spec), "chunks": tlv.to_json_nested(data),
            "outcome": out, "back": back}


def container_clone_event(obj, spec):
    data = obj.read()
    try:
        c = obj.clone()
        out, back = "ok", projection.project_any(c, spec, True)
    except Exception as e:
        out, back = "exception:" + type(e).__name__, {"kind": "none"}
    return {"op": "roundtrip", "w": False, "orig": projection.project_any(obj, spec), "chunks": tlv.to_json_nested(data),
            "outcome": out, "back": back}


def boundary_traces(spec, kinds=("synth", "project"), w=True):
    """Round trips of gen.boundary_sources (deterministic boundary values): stand-alone, cloned, and wrapped in a project."""
    import rv.api as api
    from . import gen
    out = []
    for name, obj in gen.boundary_sources(spec):
        is_synth = isinstance(obj, api.Synth)
        if is_synth and "synth" in kinds:
            out.append({"id": name, "events": [roundtrip_event(obj, spec, w=w)]})
            out.append({"id": name + ".clone", "events": [clone_event(obj.module, spec)]})
        if "project" in kinds:
            if is_synth:
                p = api.Project()
                p.attach_module(obj.module)
                p.connect(obj.module, p.output)
                out.append({"id": name + ".in-project", "events": [roundtrip_event(p, spec, w=w)]})
            else:
                out.append({"id": name, "events": [roundtrip_event(obj, spec, w=False)]})
                out.append({"id": name + ".clone", "events": [container_clone_event(obj, spec)]})
    return out


def meta_foreign_variants(base):
    """Forms of a MetaModule section that SunVox writes and this library's writer never does: a mapping block with
    fewer than 96 entries (64, 27), labels without a terminating NUL.  base: nested chunk JSON; applied at every depth."""
    def walk(cs, fn):
        out, styp, chnm = [], b"", None
        for c in cs:
            c = dict(c)
            if c["id"] == "SFFF":
                styp, chnm = b"", None
            elif c["id"] == "STYP":
                styp = bytes(c["data"]).split(b"\0")[0]
            elif c["id"] == "CHNM":
                chnm = int.from_bytes(bytes(c["data"]), "little")
            elif c["id"] == "CHDT":
                if c["isn"]:
                    c["nested"] = walk(c["nested"], fn)
                elif styp == b"MetaModule":
                    c["data"] = fn(chnm, list(c["data"]))
            out.append(c)
        return out
    def strip_nul(chnm, d):
        if chnm is not None and chnm >= 8:
            while d and d[-1] == 0:
                d.pop()
        return d
    return [("mappings-64", walk(base, lambda n, d: d[:64 * 4] if n == 1 else d)),
            ("mappings-27", walk(base, lambda n, d: d[:27 * 4] if n == 1 else d)),
            ("labels-unterminated", walk(base, strip_nul))]


def load_event(data, spec):
    out, q = load(data)
    projection.pop_overflows()
    obj = projection.project_any(q, spec, True) if q is not None else {"kind": "none"}
    return {"op": "load", "chunks": tlv.to_json_nested(data, strict=False), "outcome": out, "obj": obj,
            "overflow": projection.pop_overflows()}


def ranged_cval_sections(base, spec):
    """[(indices of the CVAL chunks of ranged controllers, section holds an embedded container)] per module section of a
    top-level chunk list.  Ranged controllers only: a number that is no member of an enumeration denotes nothing."""
    secs, cur, cur_all, mtype = [], [], [], None
    for j, c in enumerate(base):
        if c["id"] == "STYP":
            mtype = bytes(c["data"]).split(b"\0")[0].decode("latin1")
        elif c["id"] == "CVAL":
            kinds = [x["kind"] for x in spec.get(mtype, {"ctls": []})["ctls"]]
            if len(cur_all) < len(kinds) and kinds[len(cur_all)] in ("range", "dep") and not (mtype == "Smooth" and len(cur_all) == 3):
                cur.append(j)
            cur_all.append(j)
        elif c["id"] == "SEND":
            if cur:
                secs.append((cur, any(x["isn"] for x in base[cur[0]:j])))
            cur, mtype = [], None
        if c["id"] in ("SFFF", "SEND"):
            cur_all = []
    return secs


def out_of_range_variant(base, sec, rnd):
    """Copy of a chunk list with the given CVAL chunks overwritten by values beyond every nominal range."""
    import struct
    ed = json.loads(json.dumps(base))
    for j in sec:
        if rnd.random() < 0.6:
            ed[j]["data"] = list(struct.pack("<i", rnd.choice([40000, 70000, 1 << 20, 5000, 300, 2000])))
    return ed


def fixtures():
    files = sorted(f for f in glob.glob(os.path.join(REPO, "tests", "files", "**", "*"), recursive=True)
                   if f.endswith((".sunvox", ".sunsynth")))
    return [(os.path.relpath(f, os.path.join(REPO, "tests", "files")), open(f, "rb").read()) for f in files]


def leaf_count(x):
    if isinstance(x, dict):
        return sum(leaf_count(v) for v in x.values())
    if isinstance(x, list):
        return sum(leaf_count(v) for v in x) if x and isinstance(x[0], (dict, list)) else 1
    return 1


def corrupt_first_int(ev, key_path_pred=None):
    """Canary helper: flip one recorded value deep inside ev['back'] (first module's first controller or a project field)."""
    c = json.loads(json.dumps(ev))
    b = c["back"] if "back" in c else c["obj"]
    if b.get("kind") == "project":
        b["proj"]["mxof"] += 1
    elif b.get("kind") == "synth" and b["module"]:
        b["module"][0]["fin"] += 1
    return c


def validate(ctx, traces, name, canaries, path, where=None, xmx="16g", timeout=3000):
    return trace.validate(ctx, "Trace_RVFormat", traces, name, canaries=canaries, env={"RV_SPECDATA": path},
                          where=where or (lambda tr, m: tr["id"]), xmx=xmx, timeout=timeout)


# ------------------------------------------------------------------ MC stage: self-consistency of the format definition
def _alts(rnd, v):
    """Alternative in-domain values for a projected leaf, by its shape (limb pair / signed int / byte list)."""
    if isinstance(v, list) and len(v) == 2 and all(isinstance(x, int) for x in v):
        return [[0, 0], [65535, 65535], [1, 32768]]
    if isinstance(v, int):
        return [0, -1, 2147483647, -2147483648]
    return []


def seeds_for_mc(rnd, spec, n, depth=1):
    """Small real objects projected, each with a catalogue of leaf paths (1-based for sequences) and alternatives."""
    from . import gen
    import rv.api as api
    out = []
    for k in range(n):
        p = gen.rand_project(rnd, spec, nmods=rnd.randrange(1, 4), depth=depth if k % 3 == 0 else 0, small=True)
        o = projection.project_any(p, spec)
        muts = []
        for f, v in o["proj"].items():
            if f in ("vers", "bver", "name", "syncmidi", "syncother"):
                continue
            a = _alts(rnd, v)
            if a:
                muts.append({"path": ["proj", f], "vals": a})
        muts.append({"path": ["proj", "name"], "vals": [[], [195, 156] * 20]})
        for mi, m in enumerate(o["modules"], 1):
            if m["kind"] != "module":
                continue
            st = spec[m["mtype"]]
            for f in ("fin", "rel", "x", "y", "mobank", "moprog"):
                muts.append({"path": ["modules", mi, f], "vals": [0, -1, 2147483647, -2147483648]})
            muts.append({"path": ["modules", mi, "scale"], "vals": [[0, 0], [65535, 65535]]} if m["mtype"] != "Smooth" else
                        {"path": ["modules", mi, "fin"], "vals": [5]})
            muts.append({"path": ["modules", mi, "color"], "vals": [[0, 0, 0], [255, 1, 128]]})
            muts.append({"path": ["modules", mi, "vis"], "vals": [[0, 0], [450, 39475]]})
            muts.append({"path": ["modules", mi, "moname"], "vals": [[], [[100, 101]], [[195, 169] * 30]]})
            if m["mtype"] != "Output":
                muts.append({"path": ["modules", mi, "name"], "vals": [[], [120] * 31 + [195, 169], [120] * 30 + [195, 169, 122], [97] * 40]})
            for ci, c in enumerate(st["ctls"], 1):
                if c["kind"] in ("range", "compact", "nooffset"):
                    muts.append({"path": ["modules", mi, "ctl", ci], "vals": [c["min"], c["max"]]})
                elif c["kind"] == "enum":
                    muts.append({"path": ["modules", mi, "ctl", ci], "vals": [v for _, v in c["members"]][:3]})
                elif c["kind"] == "bool":
                    muts.append({"path": ["modules", mi, "ctl", ci], "vals": [0, 1]})
                if ci <= len(m["cmid"]):
                    muts.append({"path": ["modules", mi, "cmid", ci], "vals": [[3, 16, 5, 65535], [0, 0, 0, 0]]})
            for oi, opt in enumerate(st["opts"], 1):
                if opt["size"] == 1:
                    muts.append({"path": ["modules", mi, "opts", oi, 2], "vals": [0, 1]})
        for pi, pt in enumerate(o["patterns"], 1):
            if pt["kind"] == "pattern":
                muts.append({"path": ["patterns", pi, "x"], "vals": [0, -2147483648]})
                muts.append({"path": ["patterns", pi, "flags"], "vals": [[0, 0], [65535, 65535]]})
                if pt["cells"]:
                    muts.append({"path": ["patterns", pi, "cells", 1], "vals": [[0, 0, 65535, 0, 0], [128, 129, 1, 65535, 65535]]})
        out.append({"obj": o, "muts": muts})
    return out


def mc_format(ctx, path, spec, nseeds, maxdepth=1, unknown_every=7, timeout=3000):
    from . import tlc
    from .common import dump_json
    seeds = seeds_for_mc(ctx.rnd, spec, nseeds)
    sp = os.path.join(ctx.work, "mc_seeds.json")
    dump_json(sp, seeds)
    cfg = ("CONSTANTS MaxDepth = %d UnknownEvery = %d\nINIT Init\nNEXT Next\nCHECK_DEADLOCK FALSE\n"
           "INVARIANT RW\nINVARIANT Idem\nINVARIANT Struct\nINVARIANT Unknown\n" % (maxdepth, unknown_every))
    res = tlc.run("MC_RVFormat", cfg, ctx.work, env={"RV_SPECDATA": path, "RV_SEEDS": sp}, workers=16, timeout=timeout,
                  name="mc_format", xmx="16g")
    if res.invariant_violated:
        ctx.violation("model:" + res.invariant_violated, "MC_RVFormat", res.counterexample[:3000])
    ctx.add_mc("mc_format", res, "%d seeds, %d catalogued leaves, depth<=%d; invariants RW, Idem, Struct, Unknown" % (
        len(seeds), sum(len(s["muts"]) for s in seeds), maxdepth))
    return res

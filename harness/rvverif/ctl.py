"""Drivers shared by C09 and C10: real module instances driven over every specified controller."""
from enum import Enum

from . import tlc
from .common import MachineryError


def val(v):
    if isinstance(v, Enum):
        return int(v.value)
    if isinstance(v, bool):
        return int(v)
    if v is None:
        return -999999
    return int(v)


def classes():
    import rv.modules
    return dict(rv.modules.MODULE_CLASSES)


def outcome_of(fn):
    from rv.errors import ControllerValueError
    try:
        r = fn()
    except ControllerValueError:
        return "ControllerValueError", None
    except Exception as e:
        return "exception:" + type(e).__name__, None
    return "ok", r


def units_of(spec_t, c):
    if c["kind"] != "dep":
        return [0]
    return sorted(v for _, v in spec_t["ctls"][c["dep"] - 1]["members"])


def probes(c, lo, hi):
    if c["kind"] == "enum":
        out = [{"k": "int", "v": v} for _, v in c["members"]] + [{"k": "int", "v": -1}, {"k": "int", "v": 999}]
        out += [{"k": "name", "n": n} for n, _ in c["members"]] + [{"k": "name", "n": "no_such_member"}]
        # names that are attributes of every enumeration class / of int, but no members
        taken = {n for n, _ in c["members"]}
        out += [{"k": "name", "n": n} for n in ("real", "imag", "numerator", "to_bytes", "bit_length", "mro", "__members__", "name", "value", "__class__")
                if n not in taken]
        return out
    if c["kind"] == "bool":
        return [{"k": "int", "v": v} for v in (0, 1, 2)]
    vs = sorted({lo - 1, lo, lo + 1, (lo + hi) // 2, hi - 1, hi, hi + 1})
    return [{"k": "int", "v": v} for v in vs]


def pyarg(cls, cname, c, arg, as_member):
    if arg["k"] == "name":
        return arg["n"]
    if c["kind"] == "bool":
        return bool(arg["v"]) if arg["v"] in (0, 1) else arg["v"]
    if c["kind"] == "enum" and as_member:
        vt = cls.controllers[cname].value_type
        try:
            return vt(arg["v"])
        except Exception:
            return arg["v"]
    return arg["v"]


def readback(m, name):
    """The value the attribute presents; an attribute that cannot be read at all is never an allowed value."""
    try:
        return val(getattr(m, name))
    except Exception:
        return -777777


def named_and_raw_events(spec):
    """(a) the module carries a user-given name with braces / percent signs (text that message templates stumble over): a
    refusal is still the controller-value error, a lenient assignment still keeps the value; (b) lenient set_raw - the load
    path - of a stored number that denotes a value beyond the range keeps exactly the denoted value."""
    from rv.errors import override_raise_controller_value_errors
    cl = classes()
    events = []
    for t, st in sorted(spec.items()):
        cls = cl.get(t)
        if cls is None or t == "Output":
            continue
        names = list(cls.controllers)
        for i, c in enumerate(st["ctls"], 1):
            if c["kind"] not in ("range", "compact", "nooffset") or (t == "SpectraVoice" and c["name"].startswith("h")):
                continue
            for k, v in enumerate((c["max"] + 1, c["min"] - 1)):
                for strict in (True, False):
                    try:
                        m = cls()
                        m.name = ["{lead} LFO", "{}", "amp }", "100% {0}"][(i + k) % 4]
                        old = readback(m, names[i - 1])
                    except Exception:
                        continue
                    with override_raise_controller_value_errors(strict):
                        out, _ = outcome_of(lambda: setattr(m, names[i - 1], v))
                    events.append({"op": "set", "t": t, "i": i, "u": 0, "strict": strict, "how": "attr-named-module",
                                   "arg": {"k": "int", "v": v, "n": ""}, "old": old, "outcome": "exception" if out.startswith("exception:") else out,
                                   "has": True, "got": readback(m, names[i - 1])})
                # (b)
                try:
                    m = cls()
                    old = readback(m, names[i - 1])
                    raw = v - c["min"] if (c["min"] < 0 and c["kind"] != "nooffset") else v
                    with override_raise_controller_value_errors(False):
                        out, _ = outcome_of(lambda: m.set_raw(names[i - 1], raw))
                    events.append({"op": "set", "t": t, "i": i, "u": 0, "strict": False, "how": "set_raw-lenient",
                                   "arg": {"k": "int", "v": v, "n": ""}, "old": old, "outcome": "exception" if out.startswith("exception:") else out,
                                   "has": True, "got": readback(m, names[i - 1])})
                except Exception:
                    pass
    return events


def attached_repeat_events(spec):
    """A module that is attached to a project and already HOLDS a value beyond its range (a lenient load leaves such values):
    assigning that very value again in strict mode is refused like any other out-of-range assignment."""
    from rv.errors import override_raise_controller_value_errors
    import rv.api as api
    cl = classes()
    events = []
    for t, st in sorted(spec.items()):
        cls = cl.get(t)
        if cls is None or t == "Output":
            continue
        names = list(cls.controllers)
        for i, c in enumerate(st["ctls"], 1):
            if c["kind"] not in ("range", "compact", "nooffset") or (t == "SpectraVoice" and c["name"].startswith("h")):
                continue
            for v in (c["max"] + 1, c["min"] - 1):
                for attached in (True, False):
                    try:
                        m = cls()
                        if attached:
                            api.Project().attach_module(m)
                        with override_raise_controller_value_errors(False):
                            setattr(m, names[i - 1], v)
                        old = readback(m, names[i - 1])
                    except Exception:
                        continue
                    if old != v:
                        continue                 # (lenient mode did not keep it: nothing to repeat)
                    out, _ = outcome_of(lambda: setattr(m, names[i - 1], v))
                    events.append({"op": "set", "t": t, "i": i, "u": 0, "strict": True, "how": "attr-repeat-" + ("attached" if attached else "free"),
                                   "arg": {"k": "int", "v": v, "n": ""}, "old": old, "outcome": "exception" if out.startswith("exception:") else out,
                                   "has": True, "got": readback(m, names[i - 1])})
    return events


def meta_events(spec):
    """Assignment through a MetaModule: a user-defined controller mirrors the range of the embedded controller it is
    mapped to (ranges starting at 0: an assignment is pushed into the embedded module offset by the target's minimum),
    both under its own name and under the alias derived from its label."""
    from rv.errors import override_raise_controller_value_errors
    import rv.api as api
    cl = classes()
    events = []
    for t, st in sorted(spec.items()):
        cls = cl.get(t)
        if cls is None or t == "MetaModule":
            continue
        for i, c in enumerate(st["ctls"], 1):
            if c["kind"] != "range" or c["min"] != 0 or (t == "SpectraVoice" and c["name"].startswith("h")):
                continue
            lo, hi = c["min"], c["max"]
            for how, attr in (("meta-attr", "user_defined_1"), ("meta-alias", "u_cut")):
                for strict in (True, False):
                    for v in (lo - 1, hi + 1, hi, (lo + hi) // 2, hi + 1):
                        try:
                            mm = api.m.MetaModule()
                            emb = api.Project()
                            tm = emb.new_module(cls)
                            mm.project = emb
                            emb.metamodule = mm
                            rattr = attr
                            if how == "meta-alias":      # an unlabelled user-defined controller in front of the labelled one; read back
                                amp = emb.new_module(api.m.Amplifier)        # under the controller's own name, not through the alias
                                mm.mappings.values[0].module = amp.index
                                mm.mappings.values[0].controller = 0
                                mm.mappings.values[1].module = tm.index
                                mm.mappings.values[1].controller = i - 1
                                mm.user_defined_controllers = 2
                                mm.update_user_defined_controllers()
                                mm.user_defined[1].label = "cut"
                                rattr = "user_defined_2"
                            else:
                                mm.mappings.values[0].module = tm.index
                                mm.mappings.values[0].controller = i - 1
                                mm.user_defined_controllers = 1
                                mm.update_user_defined_controllers()
                                mm.user_defined[0].label = "cut"
                            old = readback(mm, rattr)
                        except Exception:
                            events.append({"op": "set", "t": t, "i": i, "u": 0, "strict": strict, "how": how, "arg": {"k": "int", "v": v, "n": ""},
                                           "old": 0, "outcome": "exception", "has": False, "got": 0})
                            continue
                        with override_raise_controller_value_errors(strict):
                            out, _ = outcome_of(lambda: setattr(mm, attr, v))
                        events.append({"op": "set", "t": t, "i": i, "u": 0, "strict": strict, "how": how, "arg": {"k": "int", "v": v, "n": ""},
                                       "old": old, "outcome": "exception" if out.startswith("exception:") else out, "has": True,
                                       "got": readback(mm, rattr)})
    return events


def history_probe_events(spec):
    """Strict-mode rejection re-probed after the library has been used for loading (a successful load, a load
    that fails, a clone): default strictness must still reject min-1 / max+1 on every fixed range."""
    import io
    import os
    from .common import REPO
    import rv.api as api
    cl = classes()
    fx = os.path.join(REPO, "tests", "files")
    api.read_sunvox_file(os.path.join(fx, "metamodule.sunsynth"))
    for bad in (os.path.join(fx, "no-such-file.sunvox"), io.BytesIO(b"SVOX\0\0\0\0SFFF\4\0\0\0\1\0\0\0STYP\3\0\0\0Zz\0")):
        try:
            api.read_sunvox_file(bad)
        except Exception:
            pass
    api.m.Amplifier().clone()
    # ... and for other things that share objects with the module classes: MetaModules whose user-defined controllers mirror
    # every controller with a negative minimum (built, saved, loaded, cloned), array payloads edited in place
    for t, st in sorted(spec.items()):
        cls = cl.get(t)
        if cls is None or t == "MetaModule":
            continue
        idx = [i for i, c in enumerate(st["ctls"]) if c["kind"] in ("range", "compact", "nooffset") and c["min"] < 0][:8]
        if not idx:
            continue
        try:
            mm = api.m.MetaModule()
            emb = api.Project()
            tm = emb.new_module(cls)
            mm.project = emb
            emb.metamodule = mm
            for k, i in enumerate(idx):
                mm.mappings.values[k].module = tm.index
                mm.mappings.values[k].controller = i
            mm.user_defined_controllers = len(idx)
            mm.update_user_defined_controllers()
            data = api.Synth(mm).read()
            api.read_sunvox_file(io.BytesIO(data))
            mm.clone()
        except Exception:
            pass
    try:
        sv = api.m.SpectraVoice()
        sv.harmonics[0].volume, sv.harmonics[0].width, sv.harmonics[0].freq_hz = 23, 11, 440
        sv.harmonics[1].freq_hz = 880
        ws = api.m.WaveShaper()
        ws.curve.values[10] = 4242
        ms = api.m.MultiSynth()
        ms.nv_curve.values[3] = 7
        mc_ = api.m.MultiCtl()
        mc_.curve.values[5] = 99
    except Exception:
        pass
    events = []
    for t, st in sorted(spec.items()):
        cls = cl.get(t)
        if cls is None:
            continue
        names = list(cls.controllers)
        try:
            fresh = cls()
            for i, c in enumerate(st["ctls"], 1):
                events.append({"op": "fresh", "t": t, "i": i, "name": names[i - 1] if i - 1 < len(names) else "?", "got": readback(fresh, names[i - 1])})
        except Exception:
            pass
        for i, c in enumerate(st["ctls"], 1):
            if c["kind"] not in ("range", "compact", "nooffset"):
                continue
            for v in (c["min"] - 1, c["max"] + 1, c["min"], c["max"]):
                m = cls()
                old = val(getattr(m, names[i - 1]))
                out, _ = outcome_of(lambda: setattr(m, names[i - 1], v))
                events.append({"op": "set", "t": t, "i": i, "u": 0, "strict": True, "how": "attr-after-loads",
                               "arg": {"k": "int", "v": v, "n": ""}, "old": old,
                               "outcome": "exception" if out.startswith("exception:") else out,
                               "has": True, "got": readback(m, names[i - 1])})
    return events


def set_events(spec, rnd=None):
    """All C09 events for every type and specified controller."""
    from rv.errors import override_raise_controller_value_errors
    cl = classes()
    events = []
    for t, st in sorted(spec.items()):
        cls = cl.get(t)
        if cls is None:
            continue
        fresh = cls()
        names = list(cls.controllers)
        for i, c in enumerate(st["ctls"], 1):
            name = names[i - 1] if i - 1 < len(names) else "?"
            events.append({"op": "fresh", "t": t, "i": i, "name": name, "got": val(getattr(fresh, name))})
            for u in units_of(st, c):
                uname = names[c["dep"] - 1] if c["kind"] == "dep" else None
                lo, hi = c["min"], c["max"]
                if c["kind"] == "dep":
                    lo, hi = next(((a, b) for uu, a, b in c["ranges"] if uu == u), c["defrange"])
                for k, arg in enumerate(probes(c, lo, hi)):
                    for strict in (True, False):
                        for how in ("attr", "kwarg"):
                            a = pyarg(cls, name, c, arg, as_member=(k % 2 == 0))
                            with override_raise_controller_value_errors(strict):
                                if how == "attr":
                                    m = cls(**({uname: u} if uname else {}))
                                    old = val(getattr(m, name))
                                    out, _ = outcome_of(lambda: setattr(m, name, a))
                                    got, has = readback(m, name), True
                                else:
                                    kw = {name: a}
                                    if uname:
                                        kw[uname] = u
                                    old = c["default"]
                                    out, m = outcome_of(lambda: cls(**kw))
                                    has = m is not None
                                    got = readback(m, name) if has else 0
                            if out.startswith("exception:"):
                                out = "exception"
                            events.append({"op": "set", "t": t, "i": i, "u": u, "strict": strict, "how": how,
                                           "arg": dict(arg, v=arg.get("v", 0), n=arg.get("n", "")), "old": old,
                                           "outcome": out, "has": has, "got": got})
    return events


def runs(pairs):
    """Lossless affine run-length form of [(v, r)] with consecutive v: [[v0, r0, n], ...] (slope 1 runs)."""
    out = []
    for v, r in pairs:
        if out and out[-1][0] + out[-1][2] == v and out[-1][1] + out[-1][2] == r:
            out[-1][2] += 1
        else:
            out.append([v, r, 1])
    return out


# ------------------------------------------------------------------ C10
def _windows(lo, hi, complete, rnd):
    if complete or hi - lo <= 4096:
        return [(lo, hi)], True
    ws = [(lo, lo + 300), (hi - 300, hi)]
    mid = (lo + hi) // 2
    ws.append((mid - 150, mid + 150))
    for _ in range(3):
        a = rnd.randrange(lo + 301, hi - 700)
        ws.append((a, a + 300))
    ws.sort()
    return ws, False


def _enumerate_type(args):
    """All (controller, unit) tables of one module type (runs in a worker process)."""
    t, st, complete, seed = args
    import random
    from .common import setup_repo_path
    setup_repo_path()
    rnd = random.Random(seed)
    cls = classes().get(t)
    out = []
    if cls is None:
        return out
    names = list(cls.controllers)
    n = 0
    for i, c in enumerate(st["ctls"], 1):
        name = names[i - 1]
        ctl_obj = cls.controllers[name]
        if c["kind"] in ("enum", "bool"):
            m = cls()
            vals = []
            members = [v for _, v in c["members"]] if c["kind"] == "enum" else [0, 1]
            for v in members:
                try:
                    setattr(m, name, bool(v) if c["kind"] == "bool" else v)
                    r = int(m.get_raw(name))
                    m.set_raw(name, r)
                    vals.append([v, r, val(getattr(m, name))])
                except Exception:
                    vals.append([v, -777777, -777777])
                n += 1
            out.append({"op": "members", "t": t, "i": i, "vals": vals})
            continue
        for u in units_of(st, c):
            uname = names[c["dep"] - 1] if c["kind"] == "dep" else None
            lo, hi = c["min"], c["max"]
            if c["kind"] == "dep":
                lo, hi = next(((a, b) for uu, a, b in c["ranges"] if uu == u), c["defrange"])
            # a unit-dependent controller must behave the same however the module got its unit:
            # constructor keyword, attribute assignment, the load path (set_raw), or cloning
            for via in (("kwarg", "attr", "set_raw", "clone", "loaded-short") if uname else ("kwarg",)):
                if via == "kwarg":
                    m = cls(**({uname: u} if uname else {}))
                elif via == "loaded-short":
                    # the module comes from a file whose CVAL list ends BEFORE the unit controller (older, shorter files),
                    # the unit is chosen afterwards
                    try:
                        import io as _io
                        import rv.api as _api
                        from . import tlv as _tlv
                        keep = c["dep"] - 1
                        chunks, seen_cv = [], 0
                        for cid, pl in _tlv.split(_api.Synth(cls()).read()):
                            if cid == b"CVAL":
                                seen_cv += 1
                                if seen_cv > keep:
                                    continue
                            if cid == b"CMID":
                                pl = pl[:8 * keep]
                            chunks.append((cid, pl))
                        m = _api.read_sunvox_file(_io.BytesIO(_tlv.join(chunks))).module
                        setattr(m, uname, u)
                    except Exception:
                        m = cls(**{uname: u})
                else:
                    m = cls()
                    ctl_obj.pattern_value(m, getattr(m, name))       # the range has been queried once
                    m.get_raw(name)
                    if via == "attr":
                        setattr(m, uname, u)
                    elif via == "set_raw":
                        m.set_raw(uname, u)
                    else:
                        setattr(m, uname, u)
                        m = m.clone()
                ws, comp = _windows(lo, hi, complete, rnd)
                # pure queries first (no assignment in between), then the assignment loop
                def pv(v):
                    try:
                        return int(ctl_obj.pattern_value(m, v))
                    except Exception:
                        return -777777
                patends = [pv(lo), pv(hi)]
                pat = [pv(v) for v in range(lo, hi + 1)] if comp else None
                raws, back = [], []
                for a, b in ws:
                    for v in range(a, b + 1):
                        try:
                            setattr(m, name, v)
                            r = int(m.get_raw(name))
                        except Exception:
                            r = -777777          # an in-range value that cannot be assigned / encoded: never the expected raw value
                        try:
                            m.set_raw(name, r)
                            bk = val(getattr(m, name))
                        except Exception:
                            bk = -777777
                        raws.append((v, r))
                        back.append((v, bk))
                        n += 1
                out.append({"op": "raws", "t": t, "i": i, "u": u, "lo": lo, "hi": hi, "complete": comp, "via": via,
                            "raws": runs(raws), "back": runs(back), "pat": pat, "patends": patends})
    return out


def _enumerate_meta(args):
    """The same tables observed through a MetaModule's user-defined controller mapped onto (type, controller, unit):
    it takes the target's range (per instance, so under the target's unit), both freshly built and after a file round
    trip.  Assignment to a user-defined controller pushes the value into the embedded module, so the table is walked from
    the stored side: set_raw(r) for every r, the value it denotes, get_raw of that value."""
    t, st, complete, seed = args
    import io
    import random
    from .common import setup_repo_path
    setup_repo_path()
    import rv.api as api
    rnd = random.Random(seed + 1)
    cls = classes().get(t)
    out = []
    if cls is None or t == "MetaModule":
        return out
    names = list(cls.controllers)
    for i, c in enumerate(st["ctls"], 1):
        if c["kind"] not in ("range", "dep", "compact", "nooffset"):
            continue
        if not (c["kind"] == "dep" or c["min"] < 0 or (i + seed) % 4 == 0):
            continue
        for u in units_of(st, c):
            uname = names[c["dep"] - 1] if c["kind"] == "dep" else None
            lo, hi = c["min"], c["max"]
            if c["kind"] == "dep":
                lo, hi = next(((a, b) for uu, a, b in c["ranges"] if uu == u), c["defrange"])
            vias = ("meta-built", "meta-loaded", "meta-behind-stale")
            if c["kind"] == "dep" or c["min"] < 0:
                vias += ("meta-padded-slot", "meta-reattached")
            for via in vias:
                try:
                    mm = api.m.MetaModule()
                    emb = api.Project()
                    if via == "meta-behind-stale":     # the first user-defined controller still points at a position that is empty now
                        emb.attach_module(None)
                    tm = cls(**({uname: u} if uname else {}))
                    emb.attach_module(tm, loading=True)
                    mm.project = emb
                    emb.metamodule = mm
                    k_ = 1 if via == "meta-behind-stale" else 0
                    if via in ("meta-padded-slot", "meta-reattached"):
                        amp = emb.new_module(api.m.Amplifier)
                        mm.mappings.values[0].module, mm.mappings.values[0].controller = amp.index, 0
                    if via == "meta-padded-slot":
                        # a file with 27 mappings (as older SunVox versions wrote); two of the slots the reader filled in are then
                        # pointed, in place, at two different targets - each user-defined controller takes the range of ITS target
                        mm.user_defined_controllers = 1
                        mm.update_user_defined_controllers()
                        from . import tlv
                        cs, chnm_ = [], None
                        for cid, payload in tlv.split(api.Synth(mm).read()):
                            if cid == b"CHNM":
                                chnm_ = int.from_bytes(payload, "little")
                            if cid == b"CHDT" and chnm_ == 1:
                                payload = payload[:27 * 4]
                            cs.append((cid, payload))
                        mm = api.read_sunvox_file(io.BytesIO(tlv.join(cs))).module
                        mm.user_defined_controllers = 29
                        mm.mappings.values[27].module, mm.mappings.values[27].controller = 1, i - 1
                        mm.mappings.values[28].module, mm.mappings.values[28].controller = 2, 0
                        mm.update_user_defined_controllers()
                        k_ = 27
                    elif via == "meta-reattached":
                        # the number of user-defined controllers lowered and raised again: the re-attached controller is the one it was
                        mm.mappings.values[1].module, mm.mappings.values[1].controller = tm.index, i - 1
                        mm.user_defined_controllers = 2
                        mm.update_user_defined_controllers()
                        mm.user_defined_controllers = 1
                        mm.user_defined_controllers = 2
                        k_ = 1
                    else:
                        if k_:
                            mm.mappings.values[0].module, mm.mappings.values[0].controller = 1, 0
                        mm.mappings.values[k_].module = tm.index
                        mm.mappings.values[k_].controller = i - 1
                        mm.user_defined_controllers = k_ + 1
                        mm.update_user_defined_controllers()
                        if via != "meta-built":
                            mm = api.read_sunvox_file(io.BytesIO(api.Synth(mm).read())).module
                    name = "user_defined_%d" % (k_ + 1)
                    ctl_obj = type(mm).controllers[name]
                except Exception:
                    out.append({"op": "raws", "t": t, "i": i, "u": u, "lo": lo, "hi": hi, "complete": True, "via": via,
                                "raws": [[lo, -777777, 1]], "back": [[lo, -777777, 1]], "pat": None, "patends": [-777777, -777777]})
                    continue
                ws, comp = _windows(lo, hi, complete and hi - lo <= 70000, rnd)

                def pv(v):
                    try:
                        return int(ctl_obj.pattern_value(mm, v))
                    except Exception:
                        return -777777
                patends = [pv(lo), pv(hi)]
                pat = [pv(v) for v in range(lo, hi + 1)] if comp else None
                off = -lo if (lo < 0 and c["kind"] != "nooffset") else 0
                raws, back = [], []
                for a, b in ws:
                    for v0 in range(a, b + 1):
                        r0 = v0 + off                      # the stored value that denotes v0
                        try:
                            mm.set_raw(name, r0)
                            if via == "meta-built" and (v0 - a) % 97 == 3:
                                api.Synth(mm).read()            # (a save in between: writing the module does not change it)
                            v = val(getattr(mm, name))
                        except Exception:
                            v = -777777
                        if v != v0:                        # set_raw did not yield the value the stored number denotes
                            raws.append((v0, -777777))
                            back.append((v0, v))
                            continue
                        try:
                            r = int(mm.get_raw(name))
                        except Exception:
                            r = -777777
                        raws.append((v0, r))
                        back.append((v0, v))
                out.append({"op": "raws", "t": t, "i": i, "u": u, "lo": lo, "hi": hi, "complete": comp, "via": via,
                            "raws": runs(raws), "back": runs(back), "pat": pat, "patends": patends})
    return out


def _enumerate_file(args):
    """The same tables observed in FILES: the module is written inside a Project and inside a Synth for every value of a
    window, the stored number is read from the CVAL chunk (signed 32-bit, as documented) and the value is loaded back."""
    t, st, complete, seed = args
    import io
    import random
    import struct
    from .common import setup_repo_path
    setup_repo_path()
    import rv.api as api
    from . import tlv
    rnd = random.Random(seed + 2)
    cls = classes().get(t)
    out = []
    if cls is None:
        return out
    names = list(cls.controllers)
    for i, c in enumerate(st["ctls"], 1):
        if c["kind"] not in ("range", "compact", "nooffset"):
            continue
        if not (c["kind"] == "nooffset" or c["min"] < 0 or (i + seed) % 16 == 0):
            continue
        if t == "SpectraVoice" and c["name"].startswith("h"):
            continue
        lo, hi = c["min"], c["max"]
        name = names[i - 1]
        try:
            m0 = cls()
            patends = [int(cls.controllers[name].pattern_value(m0, lo)), int(cls.controllers[name].pattern_value(m0, hi))]
        except Exception:
            patends = [-777777, -777777]
        for via in ("file-project", "file-synth"):
            if hi - lo <= 300:
                ws, comp = [(lo, hi)], True
            else:           # the ends of the range and the neighbourhood of zero
                ws, comp = [(lo, lo + 30)] + ([(-15, 15)] if lo + 30 < -15 and 15 < hi - 30 else []) + [(hi - 30, hi)], False
            raws, back = [], []
            for a, b in ws:
                for v in range(a, b + 1):
                    r, bk = -777777, -777777
                    try:
                        m = cls()
                        setattr(m, name, v)
                        if via == "file-project":
                            p = api.Project()
                            p.attach_module(m)
                            data = p.read()
                        else:
                            data = api.Synth(m).read()
                        cv = [struct.unpack("<i", pl)[0] for cid, pl in tlv.split(data) if cid == b"CVAL"]
                        r = cv[i - 1]
                        q = api.read_sunvox_file(io.BytesIO(data))
                        m2 = q.modules[1] if via == "file-project" else q.module
                        bk = val(getattr(m2, name))
                    except Exception:
                        pass
                    raws.append((v, r))
                    back.append((v, bk))
            out.append({"op": "raws", "t": t, "i": i, "u": 0, "lo": lo, "hi": hi, "complete": comp, "via": via,
                        "raws": runs(raws), "back": runs(back), "pat": None, "patends": patends})
    # controller objects of the class that the YAML does not list (detached ones kept in a type-specific record, e.g. the
    # Sampler's vibrato / fade-out settings): every value of the declared range through a file
    listed = {c["name"] for c in st["ctls"]}
    for name, cobj in cls.controllers.items():
        vt = getattr(cobj, "value_type", None)
        if name in listed or name.startswith("user_defined") or not hasattr(vt, "min") or not isinstance(getattr(vt, "min", None), int):
            continue
        lo, hi = int(vt.min), int(vt.max)
        if hi - lo > 70000:
            continue
        back = []
        for v in range(lo, hi + 1):
            bk = -777777
            try:
                m = cls()
                setattr(m, name, v)
                q = api.read_sunvox_file(io.BytesIO(api.Synth(m).read()))
                bk = val(getattr(q.module, name))
            except Exception:
                pass
            back.append((v, bk))
        out.append({"op": "filevalues", "t": t, "name": name, "lo": lo, "hi": hi, "back": runs(back)})
    return out


def enumerate_tables(spec, complete, seed, procs=16):
    import multiprocessing as mp
    jobs = [(t, st, complete, seed) for t, st in sorted(spec.items()) if st["ctls"]]
    with mp.get_context("fork").Pool(procs) as pool:
        res = pool.map(_enumerate_type, jobs, chunksize=1)
        res2 = pool.map(_enumerate_meta, jobs, chunksize=1)
        res3 = pool.map(_enumerate_file, jobs, chunksize=1)
    return [e for r in res + res2 + res3 for e in r]


def _first_use_child():
    """(child process) The FIRST object of every module type built in this interpreter carries controller keywords; the
    plain object built after it must still report the declared defaults.  Prints the `fresh` events as JSON."""
    import json
    import sys
    from .common import setup_repo_path
    setup_repo_path()
    spec = json.load(sys.stdin)
    cl = classes()
    events = []
    for t, st in sorted(spec.items()):
        cls = cl.get(t)
        if cls is None:
            continue
        names = list(cls.controllers)
        kw = {}
        for i, c in enumerate(st["ctls"], 1):
            if c["kind"] == "range" and i - 1 < len(names) and not (t == "SpectraVoice" and names[i - 1].startswith("h")) \
                    and not (t == "Smooth" and names[i - 1] == "scale"):
                kw[names[i - 1]] = c["max"] if c["default"] != c["max"] else c["min"]
        try:
            cls(**kw)
            fresh = cls()
        except Exception:
            fresh = None
        for i, c in enumerate(st["ctls"], 1):
            name = names[i - 1] if i - 1 < len(names) else "?"
            events.append({"op": "fresh", "t": t, "i": i, "name": name, "got": readback(fresh, name) if fresh is not None else -777777})
    json.dump(events, sys.stdout)


def first_use_events(spec):
    """`fresh` events observed in a NEW interpreter whose first construction of each type carried keyword values."""
    import json
    import subprocess
    import sys
    r = subprocess.run([sys.executable, "-c", "from rvverif.ctl import _first_use_child; _first_use_child()"],
                       input=json.dumps(spec), capture_output=True, text=True, timeout=600)
    if r.returncode != 0:
        from .common import MachineryError
        raise MachineryError("first-use child failed: " + r.stderr[-800:])
    return json.loads(r.stdout)

"""The wire layer: bytes <-> [(id, payload)].  No knowledge of what any chunk means."""
import struct


class TLVError(Exception):
    pass


def split(data, strict=True):
    out = []
    i = 0
    n = len(data)
    while i < n:
        if i + 8 > n:
            if strict:
                raise TLVError("truncated chunk header at %d" % i)
            break
        cid = bytes(data[i:i + 4])
        (ln,) = struct.unpack_from("<I", data, i + 4)
        if i + 8 + ln > n:
            if strict:
                raise TLVError("chunk %r at %d overruns the stream" % (cid, i))
            break
        out.append((cid, bytes(data[i + 8:i + 8 + ln])))
        i += 8 + ln
    return out


def join(chunks):
    return b"".join(bytes(cid) + struct.pack("<I", len(p)) + bytes(p) for cid, p in chunks)


def to_json(chunks):
    """Chunk list in the JSON convention of the specs: id as string, data as byte list."""
    return [{"id": cid.decode("latin1"), "data": list(p)} for cid, p in chunks]


def from_json(chunks):
    return [(c["id"].encode("latin1"), bytes(c["data"])) for c in chunks]


def to_json_nested(data, strict=True):
    """Chunk list in the convention of RVFormat: [id, data, isn, nested]; the payload of a CHDT that is itself a
    chunk stream starting with one of the two documented container magics is kept as a nested chunk list."""
    out = []
    for cid, p in split(data, strict):
        if cid == b"CHDT" and len(p) >= 8 and p[:8] in (b"SVOX\0\0\0\0", b"SSYN\0\0\0\0"):
            try:
                out.append({"id": "CHDT", "data": [], "isn": True, "nested": to_json_nested(p, True)})
                continue
            except TLVError:
                pass
        out.append({"id": cid.decode("latin1"), "data": list(p), "isn": False, "nested": []})
    return out


def from_json_nested(chunks):
    return join([(c["id"].encode("latin1"), from_json_nested(c["nested"]) if c["isn"] else bytes(c["data"])) for c in chunks])

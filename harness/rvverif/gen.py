"""Seeded generators of real rv objects through the public API (inputs only; no oracle here)."""
import random
import struct
from enum import Enum

NAMES = ["", "a", "Lead", " lead ", "{lead} }{", "trail\t", "b" * 31, "c" * 32, "d" * 33, "e" * 40, "x" * 31 + "é", "x" * 30 + "éz", "x" * 30 + "€",
         "ü" * 16, "ü" * 17, "x" * 29 + "\U0001f600", "x" * 28 + "\U0001f600", "中文名字", "tab\there", "q" * 100]
TEXTS = [None, "", "dev", "Mïdi öut", "z" * 70, " padded ", "\ttab", "x\u3000", "{lead} }{ {0}", "\U0001d11e\U0001f600"]


def u32(rnd):
    return rnd.choice([0, 1, 2, 255, 256, 65535, 65536, 2 ** 31 - 1, 2 ** 31, 2 ** 32 - 1, rnd.randrange(2 ** 32), rnd.randrange(1000)])


def i32(rnd):
    return rnd.choice([0, 1, -1, 127, -128, 32767, -32768, 2 ** 31 - 1, -2 ** 31, rnd.randrange(-2 ** 31, 2 ** 31), rnd.randrange(-1000, 1000)])


def classes():
    import rv.modules
    return {k: c for k, c in rv.modules.MODULE_CLASSES.items() if k != "Output"}


def set_controllers(rnd, mod, st, mode="random"):
    """Set every specified controller to a boundary / random in-domain value (units first)."""
    order = [i for i, c in enumerate(st["ctls"]) if c["kind"] != "dep"] + [i for i, c in enumerate(st["ctls"]) if c["kind"] == "dep"]
    for i in order:
        c = st["ctls"][i]
        name = c["name"]
        if mod.mtype == "SpectraVoice" and name.startswith("h_"):
            continue      # a view of the selected harmonic (see known finding F-C09-2); payload arrays are varied instead
        if c["kind"] in ("range", "compact", "nooffset"):
            lo, hi = c["min"], c["max"]
        elif c["kind"] == "dep":
            u = int(getattr(mod, st["ctls"][c["dep"] - 1]["name"]).value)
            lo, hi = next(((a, b) for uu, a, b in c["ranges"] if uu == u), c["defrange"])
        elif c["kind"] == "enum":
            setattr(mod, name, rnd.choice([v for _, v in c["members"]]))
            continue
        else:
            setattr(mod, name, rnd.random() < 0.5)
            continue
        if mode == "min":
            v = lo
        elif mode == "max":
            v = hi
        else:
            v = rnd.choice([lo, hi, rnd.randint(lo, hi), rnd.randint(lo, hi)])
        if mod.mtype == "SpectraVoice" and name == "harmonic":
            v = min(v, 15)
        setattr(mod, name, v)


def set_common(rnd, mod, in_project=True):
    from rv.cmidmap import MidiMessageType, Slope
    mod.name = rnd.choice(NAMES)
    mod.flags = mod.default_flags | rnd.choice([0, 0x80, 0x100, 0x4000, 0x02000000, 0x80 | 0x4000])
    mod.mod_finetune = i32(rnd)
    mod.mod_relative_note = i32(rnd)
    mod.x, mod.y = i32(rnd), i32(rnd)
    mod.layer = rnd.randrange(8)
    if mod.mtype != "Smooth":
        mod.scale = u32(rnd)
    mod.color = (rnd.randrange(256), rnd.randrange(256), rnd.randrange(256))
    mod.midi_in_always = rnd.random() < 0.5
    mod.midi_in_channel = rnd.randrange(17)
    mod.midi_out_name = rnd.choice(TEXTS)
    mod.midi_out_channel = rnd.randrange(17)
    mod.midi_out_bank = rnd.choice([-1, 0, 1, 127, 16383])
    mod.midi_out_program = rnd.choice([-1, 0, 5, 127])
    mod.visualization = (rnd.randrange(5) + 32 * rnd.randrange(2) + 256 * rnd.randrange(8) + 65536 * rnd.randrange(256)
                         + 16777216 * rnd.randrange(4) + 67108864 * rnd.randrange(4))
    if rnd.random() < 0.15:           # the all-zero word; words with the reserved bits SunVox itself sets (e.g. 0x9A3202C2)
        mod.visualization = rnd.choice([0, 0x9A3202C2, int(mod.visualization) | 0xC0, int(mod.visualization) | 0x90000000])
    for name in list(type(mod).controllers):
        if rnd.random() < 0.3:
            mm = mod.controller_midi_maps[name]
            mm.message_type = rnd.choice(list(MidiMessageType))
            mm.channel = rnd.randrange(17)
            mm.slope = rnd.choice(list(Slope))
            mm.message_parameter = rnd.choice([0, 1, 127, 128, 16383, 65535, rnd.randrange(65536)])


def set_options(rnd, mod, st):
    for o in rnd.sample(st["opts"], len(st["opts"])):
        if rnd.random() < 0.6:
            if o["hasmm"]:
                v = rnd.randint(o["min"], o["max"])
            else:
                v = rnd.randrange(2 ** o["size"])
            if o["name"] == "user_defined_controllers":
                continue           # set together with the mappings
            setattr(mod, o["name"], v)


def set_payload(rnd, mod, spec, depth):
    import rv.api as api
    t = mod.mtype
    if t in ("Analog generator", "Generator"):
        r = rnd.random()
        if r < 0.5:
            mod.drawn_waveform.samples = [rnd.choice([-128, -127, -1, 0, 1, 126, 127, rnd.randint(-128, 127)]) for _ in range(32)]
        elif r < 0.6:
            mod.drawn_waveform.samples[rnd.randrange(32)] = rnd.randint(-128, 127)
    elif t == "MultiSynth":
        if rnd.random() < 0.6:
            mod.nv_curve.values = [rnd.randrange(256) for _ in range(128)]
        if rnd.random() < 0.6:
            mod.vv_curve.values = [rnd.randrange(256) for _ in range(257)]
        if rnd.random() < 0.5:
            mod.np_curve.values = [rnd.choice([0, 65535, rnd.randrange(65536)]) for _ in range(128)]
        elif rnd.random() < 0.3:
            mod.np_curve.values[rnd.randrange(128)] = rnd.randrange(65536)
    elif t == "FMX":
        if rnd.random() < 0.7:
            mod.custom_waveform.values = [struct.unpack("<f", struct.pack("<f", rnd.uniform(-1, 1)))[0] for _ in range(256)]
    elif t == "WaveShaper":
        if rnd.random() < 0.7:
            mod.curve.values = [rnd.choice([0, 65535, rnd.randrange(65536)]) for _ in range(256)]
    elif t == "Vorbis player":
        mod.data = rnd.choice([None, b"", b"OggS" + bytes(rnd.randrange(256) for _ in range(rnd.randrange(200)))])
    elif t == "SpectraVoice":
        for h in mod.harmonics:
            if rnd.random() < 0.5:
                h.freq_hz = rnd.choice([0, 32768, rnd.randrange(32769)])
                h.volume = rnd.randrange(256)
                h.width = rnd.randrange(256)
                h.type = rnd.choice(list(type(mod).HarmonicType))
    elif t == "MultiCtl":
        if rnd.random() < 0.6:
            mod.curve.values = [rnd.choice([0, 32768, rnd.randrange(32769)]) for _ in range(257)]
        for mp in mod.mappings.values:
            if rnd.random() < 0.4:
                mp.min, mp.max = rnd.randrange(32769), rnd.randrange(32769)
                mp.controller = rnd.randrange(0, 40)
                mp.flags = rnd.choice([0, 1])
                mp.future_use2 = rnd.choice([0, u32(rnd)])
    elif t == "Sampler":
        set_sampler(rnd, mod, spec, depth)
    elif t == "MetaModule":
        set_meta(rnd, mod, spec, depth)


def set_sampler(rnd, mod, spec, depth):
    import rv.api as api
    S = type(mod)
    nsm = rnd.choice([0, 1, 2, 3, 5])
    slots = rnd.sample(range(128), nsm)
    if rnd.random() < 0.45 and nsm:          # the boundary slots: the last one uses the highest chunk numbers (0xff, 0x100)
        slots = [x for x in slots if x != 127][:nsm - 1] + [127]
    if rnd.random() < 0.3 and nsm > 1 and 0 not in slots:
        slots[0] = 0
    for i in slots:
        s = S.Sample()
        s.format = rnd.choice(list(S.Format))
        s.channels = rnd.choice(list(S.Channels))
        s.data = bytes(rnd.randrange(256) for _ in range(rnd.choice([0, 1, 7, 8, 64, rnd.randrange(300)])))
        if rnd.random() < 0.03:          # scale: PCM data beyond 64 KiB
            s.data = bytes(rnd.getrandbits(8) for _ in range(65536 + rnd.choice([0, 1, 8, 4096])))
        s.loop_start, s.loop_len = rnd.choice([0, 5, u32(rnd)]), rnd.choice([0, 9, u32(rnd)])
        s.volume = rnd.randrange(65)
        s.finetune = rnd.randint(-128, 127)
        s.rate = rnd.choice([44100, 48000, 8000, 1, u32(rnd)])
        s.loop_type = rnd.choice(list(S.LoopType))
        s.loop_sustain = rnd.random() < 0.5
        s.panning = rnd.randint(-128, 127)
        s.relative_note = rnd.randint(-128, 127)
        s.reserved2 = rnd.choice([0, 0, 255])
        s.name = rnd.choice([b"", b"kick", b"n" * 22, b"long-name-" * 3])
        s.start_pos = rnd.choice([0, 3, u32(rnd)])
        mod.samples[i] = s
    empty_vol = rnd.random() < 0.15          # an empty volume envelope next to customised other envelopes (edge case)
    stock_vol = not empty_vol and rnd.random() < 0.3     # the volume envelope left exactly as constructed, the others customised
    for k, e in enumerate([mod.volume_envelope, mod.panning_envelope, mod.pitch_envelope] + list(mod.effect_control_envelopes)):
        if k == 0 and stock_vol:
            continue
        if rnd.random() < 0.6 or empty_vol or stock_vol:
            lo, hi = e.range
            n = rnd.choice([0, 1, 2, 4, 12, 13, rnd.randrange(1, 40)])
            if empty_vol:
                n = 0 if k == 0 else rnd.choice([3, 5, 12])
            xs = sorted(rnd.randrange(65536) for _ in range(n))
            e.points = [(x, rnd.choice([lo, hi, rnd.randrange(lo, hi + 1), (rnd.randrange(lo, hi + 1) // 512) * 512])) for x in xs]
            e.enable, e.sustain, e.loop = (rnd.random() < 0.5), (rnd.random() < 0.5), (rnd.random() < 0.5)
            e.sustain_point = rnd.randrange(0, max(1, min(n, 255)))
            e.loop_start_point = rnd.randrange(0, max(1, min(n, 255)))
            e.loop_end_point = rnd.randrange(0, max(1, min(n, 255)))
            e.ctl_index = rnd.randrange(32)
            e.gain_pct = rnd.randrange(101)
            e.velocity = rnd.randrange(101)
    if rnd.random() < 0.7:
        for k in list(mod.note_samples):
            mod.note_samples[k] = rnd.choice([0, 1, 2, 127, rnd.randrange(128)])
    mod.vibrato_type = rnd.choice(list(S.VibratoType))
    mod.vibrato_attack = rnd.randrange(256)
    mod.vibrato_depth = rnd.randrange(256)
    mod.vibrato_rate = rnd.randrange(64)
    mod.volume_fadeout = rnd.choice([0, 8192, rnd.randrange(8193)])
    mod.instrument_name = rnd.choice([b"", b"ins", b"i" * 22, b"j" * 30])
    if rnd.random() < 0.4:
        mod.editor_cursor = rnd.choice([0, 7, -3, i32(rnd)])
        mod.editor_selected_size = rnd.choice([0, 9, i32(rnd)])
    if rnd.random() < 0.3:
        mod.volume_old = rnd.randrange(256)
        mod.ins_finetune = rnd.randint(-128, 127)
        mod.ins_relative_note = rnd.randint(-128, 127)
    if depth > 0 and rnd.random() < 0.5:
        cl = classes()
        ecls = cl[rnd.choice(sorted(k for k in cl if k not in ("MetaModule", "Sampler")))]
        mod.effect = api.Synth(rand_module(rnd, ecls, spec, depth - 1, in_project=False))


FORCE_UDC = None      # drivers may pin the number of user-defined controllers of generated MetaModules


def set_meta(rnd, mod, spec, depth):
    import rv.api as api
    from rv.controller import Range
    cl = classes()
    emb = rand_project(rnd, spec, nmods=rnd.randrange(0 if FORCE_UDC is None else 2, 4), depth=depth - 1, allow_meta=depth > 1, small=True)
    mod.project = emb
    emb.metamodule = mod
    n = rnd.choice([0, 1, 2, 3, 5, 27, 89, 95, 96, 96, rnd.randrange(97)]) if FORCE_UDC is None else FORCE_UDC
    # (a nested MetaModule is a target too: chains user-defined -> user-defined -> controller)
    targets = [(i, m) for i, m in enumerate(emb.modules) if m is not None and i > 0 and len(type(m).controllers) > 0]
    for i in range(96):
        if i < n and targets and rnd.random() < 0.8:
            mi, tm = rnd.choice(targets)
            nspec = len(spec[tm.mtype]["ctls"])
            ranged = [k for k, c in enumerate(spec[tm.mtype]["ctls"]) if c["kind"] == "range" and not (tm.mtype == "SpectraVoice" and c["name"].startswith("h"))]
            mod.mappings.values[i].module = mi
            if tm.mtype == "MetaModule":       # its five own controllers and the user-defined ones it exposes
                nspec = 5 + int(tm.user_defined_controllers)
                ranged = []
            mod.mappings.values[i].controller = rnd.choice(ranged) if (i == n - 1 and ranged) else rnd.randrange(nspec)
        elif rnd.random() < 0.05:
            mod.mappings.values[i].module = rnd.choice([0, 200])
            mod.mappings.values[i].controller = rnd.randrange(50)
        elif targets and rnd.random() < 0.05:      # an existing module, a controller index exactly at / just beyond its controller count
            mi, tm = rnd.choice(targets)
            mod.mappings.values[i].module = mi
            mod.mappings.values[i].controller = len(type(tm).controllers) + rnd.choice([0, 0, 1])
    mod.user_defined_controllers = n
    try:
        mod.update_user_defined_controllers()
    except Exception:           # (a library under test may fail here; the generated object is still saved and judged)
        pass
    for i in range(96):
        if rnd.random() < (0.5 if i < n else 0.03):
            mod.user_defined[i].label = rnd.choice(["cut", "Réso", "", "w" * 40, "x y"])
    for i in range(n):
        mp = mod.mappings.values[i]
        if mp.module == 0 or mp.module >= len(emb.modules) or emb.modules[mp.module] is None:
            continue
        tm = emb.modules[mp.module]
        ctls = list(type(tm).controllers.values())
        if mp.controller >= len(ctls) or rnd.random() < 0.3:
            continue
        c = ctls[mp.controller]
        t = c.instance_value_type(tm)
        name = "user_defined_%d" % (i + 1)
        try:
            if isinstance(t, Range):
                cands = [v for v in (t.min, t.max, 0, 1, (t.min + t.max) // 2, rnd.randint(t.min, t.max))
                         if t.min <= v <= t.max and t.min <= v + t.min <= t.max]
                if cands:
                    setattr(mod, name, rnd.choice(cands))
            elif isinstance(t, type) and issubclass(t, Enum):
                setattr(mod, name, rnd.choice(list(t)))
            elif t is bool:
                setattr(mod, name, rnd.random() < 0.5)
        except Exception:
            pass
    # afterwards mapped targets may be edited directly: the stored user-controller value and the target's value differ
    # (the last exposed controller most often: it is the one at the end of every table)
    for i in ([n - 1] + list(range(n)) if n else []):
        mp = mod.mappings.values[i]
        if mp.module == 0 or mp.module >= len(emb.modules) or emb.modules[mp.module] is None or rnd.random() < (0.3 if i == n - 1 else 0.8):
            continue
        tm = emb.modules[mp.module]
        st = spec.get(tm.mtype)
        if st and mp.controller < len(st["ctls"]):
            c = st["ctls"][mp.controller]
            if c["kind"] == "range" and not (tm.mtype == "SpectraVoice" and c["name"].startswith("h")):
                try:
                    tm.controller_values[c["name"]] = rnd.choice([c["min"], c["max"], rnd.randint(c["min"], c["max"])])
                except Exception:
                    pass
    if rnd.random() < 0.4:
        for tm in [m for m in emb.modules[1:] if m is not None][:3]:
            st = spec.get(tm.mtype)
            for c in (st["ctls"] if st else []):
                if c["kind"] == "range" and rnd.random() < 0.5 and not (tm.mtype == "SpectraVoice" and c["name"].startswith("h")):
                    try:
                        tm.controller_values[c["name"]] = rnd.randint(c["min"], c["max"])
                    except Exception:
                        pass
    from rv.cmidmap import MidiMessageType
    for i in range(n):
        if rnd.random() < 0.2:
            mm = mod.controller_midi_maps["user_defined_%d" % (i + 1)]
            mm.message_type = rnd.choice(list(MidiMessageType))
            mm.message_parameter = rnd.randrange(65536)


def meta_negmin(rnd, spec, n=6):
    """A MetaModule whose user-defined controllers mirror controllers with a NEGATIVE minimum (their stored form is
    offset by the target's minimum), values given on the stored side."""
    import rv.api as api
    cl = classes()
    cands = [(t, k, c) for t, st in sorted(spec.items()) if t in cl and t not in ("MetaModule", "SpectraVoice")
             for k, c in enumerate(st["ctls"]) if c["kind"] in ("range", "nooffset", "compact") and c["min"] < 0]
    mm = api.m.MetaModule()
    emb = api.Project()
    mm.project = emb
    emb.metamodule = mm
    picks = rnd.sample(cands, min(n, len(cands)))
    for j, (t, k, c) in enumerate(picks):
        tm = emb.new_module(cl[t])
        mm.mappings.values[j].module = tm.index
        mm.mappings.values[j].controller = k
    mm.user_defined_controllers = len(picks)
    try:
        mm.update_user_defined_controllers()
    except Exception:
        pass
    for j, (t, k, c) in enumerate(picks):
        try:
            mm.set_raw("user_defined_%d" % (j + 1), rnd.choice([0, 1, c["max"] - c["min"], rnd.randrange(c["max"] - c["min"] + 1)]) if c["kind"] != "nooffset"
                       else rnd.randint(c["min"], c["max"]))
        except Exception:
            pass
    set_common(rnd, mm, False)
    return mm


def chain_meta(rnd, spec, width=None):
    """A MetaModule whose user-defined controllers are chained through NESTED MetaModules (depth 2) onto controllers of
    different kinds - boolean, enumeration, zero-based and offset ranges - at the same slot numbers of the nested ones."""
    import rv.api as api
    cl = classes()
    simple = [k for k in sorted(cl) if k not in ("MetaModule", "Sampler", "SpectraVoice", "Output")]
    outer = api.m.MetaModule()
    emb = api.Project()
    outer.project = emb
    emb.metamodule = outer
    width = width or rnd.randrange(2, 5)
    kinds = ["bool", "enum", "range", "negrange"]
    rnd.shuffle(kinds)
    if width < 4 and "negrange" not in kinds[:width]:       # (always one chain onto a range with a negative minimum)
        kinds[rnd.randrange(width)] = "negrange"
    for j in range(width):
        inner = api.m.MetaModule()
        ie = api.Project()
        inner.project = ie
        ie.metamodule = inner
        want = kinds[j % len(kinds)]
        for _ in range(40):
            t = rnd.choice(simple)
            cands = [k for k, c in enumerate(spec[t]["ctls"]) if (c["kind"] == want if want != "negrange" else (c["kind"] == "range" and c["min"] < 0))]
            if cands:
                break
        tm = ie.new_module(cl[t])
        ci = rnd.choice(cands) if cands else 0
        inner.mappings.values[0].module = tm.index
        inner.mappings.values[0].controller = ci
        inner.user_defined_controllers = 1
        try:
            inner.update_user_defined_controllers()
        except Exception:
            pass
        emb.attach_module(inner)
        outer.mappings.values[j].module = inner.index
        outer.mappings.values[j].controller = 5              # the nested module's first user-defined controller
    outer.user_defined_controllers = width
    try:
        outer.update_user_defined_controllers()
    except Exception:
        pass
    for j in range(width):                                    # values stored on the outer controllers (not pushed down)
        inner = emb.modules[j + 1]
        tm = inner.project.modules[1]
        c = spec[tm.mtype]["ctls"][inner.mappings.values[0].controller]
        name = "user_defined_%d" % (j + 1)
        try:
            if c["kind"] == "range" and c["min"] < 0:
                outer.set_raw(name, rnd.choice([0, 1, c["max"] - c["min"], -c["min"] - 20, rnd.randrange(c["max"] - c["min"] + 1)]))
            elif c["kind"] == "range":
                outer.set_raw(name, rnd.choice([300, 2, c["max"] - c["min"], (c["max"] - c["min"]) // 2]) if c["max"] - c["min"] >= 300 else rnd.randrange(c["max"] - c["min"] + 1))
            elif c["kind"] == "enum":
                outer.set_raw(name, rnd.choice([v for _, v in c["members"]]))
            elif c["kind"] == "bool":
                outer.set_raw(name, rnd.choice([0, 1]))
        except Exception:
            pass
    set_common(rnd, outer, False)
    return outer


def large_project(rnd, spec, nmods=270):
    """Scale: more than 256 modules (light-weight types), links between positions above 255, one module with 100+ inputs,
    a pattern with hundreds of lines and 16+ tracks whose notes name high module numbers, a pattern list longer than 256."""
    import rv.api as api
    cl = classes()
    light = [cl[k] for k in ("Amplifier", "Filter", "Distortion", "Reverb", "Delay", "Echo", "LFO", "Compressor") if k in cl]
    p = api.Project()
    p.name = "large"
    mods = []
    for k in range(nmods):
        if k in (130, 200):
            p.attach_module(None)
            continue
        m = rnd.choice(light)()
        set_controllers(rnd, m, spec[m.mtype], "random")
        m.name = "m%d" % k
        m.x, m.y = i32(rnd), i32(rnd)
        mods.append(p.attach_module(m, loading=True))
    hub = mods[-1]
    for s in rnd.sample(mods[:-1], 110):            # 100+ links into one module
        p.connect(s, hub)
    for _ in range(150):
        a, b = rnd.choice(mods[200:]), rnd.choice(mods[200:])
        p.connect(a, b)
    for a in rnd.sample(mods, 20):
        p.connect(~a, hub)                          # freed slots in a long table
    p.connect(hub, p.output)
    big = api.Pattern(tracks=rnd.choice([16, 17, 32]), lines=rnd.choice([256, 300, 513]), name="big")
    for _ in range(400):
        n = big.data[rnd.randrange(big.lines)][rnd.randrange(big.tracks)]
        n.note, n.vel, n.module = rnd.choice(list(api.NOTECMD)), rnd.randrange(130), rnd.choice([1, 256, 257, 269, 270, 1000, 65535])
        n.ctl, n.val = rnd.randrange(65536), rnd.randrange(65536)
    p.attach_pattern(big)
    for k in range(262):
        p.attach_pattern(api.PatternClone(source=rnd.choice([0, 255, 256]), x=k * 4, y=rnd.choice([0, 32, -32])) if k % 5 else None)
    return p


def rand_module(rnd, cls, spec, depth=1, in_project=True, mode="random"):
    mod = cls()
    st = spec[mod.mtype]
    set_controllers(rnd, mod, st, mode)
    set_options(rnd, mod, st)
    set_payload(rnd, mod, spec, depth)
    set_common(rnd, mod, in_project)
    return mod


def rand_pattern(rnd, small=False):
    import rv.api as api
    cmds = list(api.NOTECMD)
    pat = api.Pattern(tracks=rnd.randrange(1, 5 if small else 9), lines=rnd.randrange(1, 9 if small else 33),
                      name=rnd.choice(TEXTS[:4]), x=i32(rnd), y=i32(rnd))
    pat.y_size = u32(rnd)
    pat.flags_PFLG = rnd.choice([0, 1, 2, 3])
    pat.flags_PFFF = rnd.choice([0, 2, 8, 16, 26])
    pat.icon = bytes(rnd.randrange(256) for _ in range(32))
    pat.fg_color = (rnd.randrange(256), rnd.randrange(256), rnd.randrange(256))
    pat.bg_color = (rnd.randrange(256), rnd.randrange(256), rnd.randrange(256))
    for line in pat.data:
        for n in line:
            r = rnd.random()
            if r < 0.3:
                continue
            if r < 0.45:
                n.module = rnd.choice([1, 2, 65535])          # module-only cell
                continue
            n.note = rnd.choice(cmds)
            n.vel = rnd.randrange(130)
            n.module = rnd.choice([0, 1, 2, 255, 256, 65535, rnd.randrange(65536)])
            n.ctl = rnd.randrange(65536)
            n.val = rnd.randrange(65536)
    return pat


def rand_project(rnd, spec, nmods=None, depth=1, allow_meta=True, small=False, types=None):
    import rv.api as api
    cl = classes()
    keys = sorted(k for k in cl if (allow_meta and depth > 0) or k != "MetaModule")
    if depth <= 0:
        keys = [k for k in keys if k != "MetaModule"]
    p = api.Project()
    p.name = rnd.choice(["Project", "", "Ünï", "p" * 50])
    p.flags = u32(rnd)
    p.initial_bpm, p.initial_tpl = u32(rnd), u32(rnd)
    p.time_grid, p.time_grid2, p.global_volume = u32(rnd), u32(rnd), u32(rnd)
    p.modules_scale, p.modules_zoom = u32(rnd), u32(rnd)
    p.modules_x_offset, p.modules_y_offset = i32(rnd), i32(rnd)
    p.modules_layer_mask, p.modules_current_layer = u32(rnd), u32(rnd)
    p.timeline_position = rnd.choice([0, 0, i32(rnd)])
    p.restart_position = rnd.choice([0, 0, -8, i32(rnd)])
    p.selected_module, p.selected_generator = u32(rnd), i32(rnd)
    p.current_pattern, p.current_track, p.current_line = u32(rnd), u32(rnd), u32(rnd)
    p.receive_sync_midi, p.receive_sync_other = rnd.randrange(8), rnd.randrange(8)
    if rnd.random() < 0.3:            # value coincidences between independent fields
        for a, b in rnd.sample([("time_grid2", "time_grid"), ("initial_tpl", "initial_bpm"), ("modules_zoom", "modules_scale"),
                                ("modules_y_offset", "modules_x_offset"), ("current_track", "current_pattern"),
                                ("restart_position", "timeline_position"), ("modules_current_layer", "modules_layer_mask")], 3):
            setattr(p, a, getattr(p, b))
        p.receive_sync_other = p.receive_sync_midi
    p.based_on_version = rnd.choice([(2, 1, 2, 1), (2, 1, 2, 1), (1, 9, 4, 2), (1, 7, 0, 0), (2, 0, 0, 0), (1, 9, 5, 0)])
    if nmods is None:
        nmods = rnd.randrange(0, 4 if small else 9)
    for k in range(nmods):
        if rnd.random() < 0.12:
            p.attach_module(None)
            continue
        key = types[k % len(types)] if types else rnd.choice(keys)
        # (loading=True is the public way to append behind an empty position: it leaves an interior gap, as SunVox files have)
        p.attach_module(rand_module(rnd, cl[key], spec, depth, in_project=True), loading=(None in p.modules and rnd.random() < 0.5))
    if rnd.random() < 0.15:          # several trailing empty positions (a save + load drops all of them)
        for _ in range(rnd.randrange(1, 4)):
            p.attach_module(None)
    real = [m for m in p.modules if m is not None]
    for _ in range(rnd.randrange(0, 3 * len(real))):
        a, b = rnd.choice(real), rnd.choice(real)
        if rnd.random() < 0.25:
            p.connect(~a, b)
        else:
            p.connect(a, b)
    for _ in range(rnd.randrange(0, 3 if small else 5)):
        r = rnd.random()
        if r < 0.2:
            p.attach_pattern(None)
        elif r < 0.4:
            p.attach_pattern(api.PatternClone(source=rnd.choice([0, 1, 7]), x=i32(rnd), y=i32(rnd),
                                              flags_PFFF=rnd.choice([1, 3, 9])))
        else:
            p.attach_pattern(rand_pattern(rnd, small))
    if rnd.random() < 0.25:           # clones of clones, of themselves, of empty positions
        base = len(p.patterns)
        p.attach_pattern(api.PatternClone(source=base + 1, x=4, y=8))          # (its source is the next clone)
        p.attach_pattern(api.PatternClone(source=base, x=8, y=8))
        p.attach_pattern(api.PatternClone(source=base + 2, x=12, y=8))         # itself
        p.attach_pattern(None)
        p.attach_pattern(api.PatternClone(source=base + 3, x=16, y=8))         # an empty position
    return p


def boundary_sources(spec):
    """Deterministic objects holding the boundary values of the format (no random stream: a detection that depends on
    them does not move when a generator elsewhere changes).  Returns [(name, Synth or Project)].  A group whose construction
    fails under the library at hand is left out (the remaining groups and the random sources are still judged)."""
    out = []
    for build in (_bnd_waves, _bnd_samplers, _bnd_project, _bnd_metas):
        try:
            out += build(spec)
        except Exception:
            pass
    return out


def _bnd_waves(spec):
    import rv.api as api
    cl = classes()
    out = []
    wave = [-128, 127, -1, 0, 1, -127, 126, -128] * 4
    for t in ("Generator", "Analog generator"):
        mod = cl[t]()
        mod.drawn_waveform.samples = list(wave)
        out.append(("bnd-%s.sunsynth" % t.split()[0].lower(), api.Synth(mod)))
    return out


def _bnd_samplers(spec):
    import rv.api as api
    cl = classes()
    out = []
    S = cl["Sampler"]
    smp = S()
    for k, slot in enumerate((0, 1, 63, 126, 127)):
        s = S.Sample()
        s.format = list(S.Format)[k % len(list(S.Format))]
        s.channels = list(S.Channels)[k % 2]
        s.data = bytes((17 * k + j) % 256 for j in range(16))
        s.rate = 22177 + k
        s.name = b"slot%d" % slot
        s.loop_start, s.loop_len = k, 2 * k
        smp.samples[slot] = s
    for j, k in enumerate(list(smp.note_samples)):
        smp.note_samples[k] = (0, 1, 63, 126, 127)[j % 5]
    out.append(("bnd-sampler.sunsynth", api.Synth(smp)))
    shared = S()            # one Sample object sitting in three slots
    s = S.Sample()
    s.data, s.rate, s.name = bytes(range(24)), 11025, b"shared"
    for slot in (2, 4, 9):
        shared.samples[slot] = s
    for j, k in enumerate(list(shared.note_samples)):
        shared.note_samples[k] = (2, 4, 9)[j % 3]
    out.append(("bnd-sampler-shared.sunsynth", api.Synth(shared)))
    return out


def _bnd_project(spec):
    import rv.api as api
    cl = classes()
    out = []
    wave = [-128, 127, -1, 0, 1, -127, 126, -128] * 4
    p = api.Project()
    p.name = "bnd"
    vis = [0x01 | (1 << 24) | (2 << 26), 0x22 | (3 << 24), 0x0304 | (3 << 26), 0x00FF0702 | (2 << 24) | (1 << 26)]
    mods = []
    for k, t in enumerate(("Amplifier", "Sound2Ctl", "MultiCtl", "LFO", "Generator", "Delay")):
        mod = p.new_module(cl[t])
        mod.visualization = vis[k % len(vis)]
        mods.append(mod)
    amp, s2c, mc, lfo, gn, dl = mods
    amp.name = ""
    s2c.record_values, s2c.send_only_changed_values = False, False
    s2c.name, s2c.midi_out_name = "ctl", "Port 1"
    mc.curve.values = [(i * 97) % 32769 for i in range(257)]
    mc.mappings.values[0].min, mc.mappings.values[0].max, mc.mappings.values[0].controller = 3, 30000, 2
    lfo.midi_out_name = "x"
    gn.drawn_waveform.samples = list(wave)
    p.connect(gn, dl)
    p.connect(dl, dl)              # a module fed by itself, behind another link of the same source
    p.connect(dl, amp)
    p.connect(amp, p.output)
    for dst in (lfo, mc):          # links into modules that only send
        p.connect(amp, dst)
    pat = api.Pattern(tracks=4, lines=8, name="named", x=-4, y=2)
    pat.data[1][0].note, pat.data[1][0].module = api.NOTECMD.C4, 2
    pat.data[1][1].module = 3             # module-only cell next to a real note
    pat.data[4][2].module = 5             # module-only cells alone on their lines
    pat.data[5][0].module = 1
    pat.data[7][3].module = 300
    p.attach_pattern(pat)
    noicon = api.Pattern(tracks=1, lines=2, name="no icon")
    noicon.flags_PFLG = 1            # no_icon, with an icon nevertheless stored
    noicon.icon = bytes([0x81, 0xFF] * 16)
    p.attach_pattern(noicon)
    p.attach_pattern(api.PatternClone(source=0, x=40, y=-3))
    out.append(("bnd-project.sunvox", p))
    return out


def _bnd_metas(spec):
    import rv.api as api
    cl = classes()
    out = []
    # sibling MetaModules exposing DIFFERENT numbers of user-defined controllers (what is attached is a matter of the instance),
    # mapped onto signed controllers whose values were set on the embedded side and then mirrored
    p2 = api.Project()
    p2.name = "bnd metas"
    for k, n in enumerate((1, 4, 0, 2)):
        mm = p2.new_module(cl["MetaModule"])
        mm.name = "mm%d" % n
        amp = mm.project.new_module(cl["Amplifier"])
        ms = mm.project.new_module(cl["MultiSynth"])
        amp.balance, amp.dc_offset, ms.transpose, ms.finetune = -28 - k, 17 + k, -5 - k, 100 + k
        targets = [(amp.index, 1), (ms.index, 0), (amp.index, 2), (ms.index, 2)]       # balance, transpose, dc_offset, finetune
        for j in range(n):
            mm.mappings.values[j].module, mm.mappings.values[j].controller = targets[j]
        mm.user_defined_controllers = n
        try:                    # (a library under test may fail here; the object is still saved and judged)
            mm.update_user_defined_controllers()
        except Exception:
            pass
        for j in range(n):
            mm.user_defined[j].label = ["Cutoff", "", "x y", "Réso"][j]      # (an EMPTY label is a label)
    # ... and onto the one controller kind whose stored form carries NO offset although its range starts below zero
    mmv = p2.new_module(cl["MetaModule"])
    mmv.name = "vorbis"
    vp = mmv.project.new_module(cl["Vorbis player"])
    vp.finetune, vp.transpose = -5, -7
    for j, c_ in enumerate((2, 3)):
        mmv.mappings.values[j].module, mmv.mappings.values[j].controller = vp.index, c_
    mmv.user_defined_controllers = 2
    try:
        mmv.update_user_defined_controllers()
    except Exception:
        pass
    out.append(("bnd-metas.sunvox", p2))
    out.append(("bnd-meta4.sunsynth", api.Synth(p2.modules[2].clone())))
    return out



"""./check SETUP : verify the tool chain and pre-parse every specification with SANY (offline)."""
import glob
import os
import subprocess
import sys

from . import tlc


def main():
    ok = True
    try:
        out = subprocess.run(["java", "-version"], stdout=subprocess.PIPE, stderr=subprocess.STDOUT, text=True).stdout
        print(out.splitlines()[0])
    except Exception as e:
        print("java missing:", e)
        return 2
    if not os.path.exists("/venv/bin/python"):
        print("missing /venv/bin/python")
        return 2
    for f in sorted(glob.glob(os.path.join(tlc.SPEC_DIR, "*.tla"))):
        mod = os.path.basename(f)[:-4]
        good, out = tlc.sany(mod)
        print("SANY %-24s %s" % (mod, "ok" if good else "FAILED"))
        if not good:
            print(out[-2000:])
            ok = False
    return 0 if ok else 2


if __name__ == "__main__":
    sys.exit(main())

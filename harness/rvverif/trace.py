"""Batch trace validation (mode B/C): the harness writes a JSON batch, TLC runs the trace
specification over it (one initial state per trace), and prints MISMATCH lines and exactly
one ACCEPT/REJECT line per trace id.  Verdicts are total: a missing id is a machinery failure."""
import os

from . import tlc
from .common import MachineryError, dump_json

CFG = """INIT TInit
NEXT TNext
CHECK_DEADLOCK FALSE
"""


def validate(ctx, module, traces, name, canaries=(), workers=16, timeout=1200, consts="", env=None,
             where=lambda tr, m: None, count=True, xmx="12g", extra_cfg="", max_bytes=24_000_000):
    """Splits large batches into several TLC invocations (JSON ingestion is the bottleneck), see _validate."""
    import json as _json
    if not traces:
        return {}
    sizes = [len(_json.dumps(t, separators=(",", ":"))) for t in traces]
    batches, cur, cur_sz = [], [], 0
    for t, sz in zip(traces, sizes):
        if cur and cur_sz + sz > max_bytes:
            batches.append(cur)
            cur, cur_sz = [], 0
        cur.append(t)
        cur_sz += sz
    if cur:
        batches.append(cur)
    out = {}
    can = set(canaries)
    for k, b in enumerate(batches):
        ids = {t["id"] for t in b}
        out.update(_validate(ctx, module, b, name if len(batches) == 1 else "%s.%d" % (name, k), [c for c in can if c in ids], workers, timeout,
                             consts, env, where, count, xmx, extra_cfg))
    return out


def _validate(ctx, module, traces, name, canaries=(), workers=16, timeout=1200, consts="", env=None,
              where=lambda tr, m: None, count=True, xmx="12g", extra_cfg=""):
    """traces: list of dicts with unique 'id'.  canaries: ids that MUST be rejected.
    Returns {id: {"verdict": "ACCEPT"/"REJECT", "mismatches": [...]}}.  Non-canary rejections are
    turned into ctx.violation(clause, where, detail)."""
    if not traces:
        return {}
    ids = [t["id"] for t in traces]
    if len(set(ids)) != len(ids):
        raise MachineryError("duplicate trace ids in batch " + name)
    path = os.path.join(ctx.work, name + ".json")
    dump_json(path, traces)
    e = {"RV_TRACE_FILE": path}
    if env:
        e.update(env)
    cfg = (("CONSTANTS " + consts + "\n") if consts else "") + CFG + extra_cfg
    res = tlc.run(module, cfg, ctx.work, env=e, workers=workers, timeout=timeout, name=name, xmx=xmx)
    if res.invariant_violated or res.property_violated:
        raise MachineryError("trace spec %s reported an invariant violation: %s" % (module, res.counterexample[:1500]))
    out = {}
    for m in res.msgs:
        v = m.get("v")
        if v in ("ACCEPT", "REJECT"):
            if m["id"] in out and "verdict" in out[m["id"]]:
                raise MachineryError("two verdicts for trace %r" % m["id"])
            out.setdefault(m["id"], {"mismatches": []})["verdict"] = v
        elif v in ("MISMATCH", "INVARIANT"):
            out.setdefault(m["id"], {"mismatches": []})["mismatches"].append(m)
        elif v is not None:
            out.setdefault(m["id"], {"mismatches": []}).setdefault("other", []).append(m)
    missing = [i for i in ids if i not in out or "verdict" not in out[i]]
    if missing:
        raise MachineryError("no verdict for %d trace(s) in %s, e.g. %r\n%s" % (len(missing), name, missing[:3], res.out[-1500:]))
    bytr = {t["id"]: t for t in traces}
    can = set(canaries)
    for i in ids:
        o = out[i]
        if (o["verdict"] == "REJECT") != bool(o["mismatches"]):
            raise MachineryError("verdict/mismatch disagreement for trace %r" % i)
        if i in can:
            ctx.canary(str(i), o["verdict"] == "REJECT")
            continue
        if count:
            ctx.cov["traces_validated_against_impl"] += 1
        if o["verdict"] == "REJECT":
            for m in o["mismatches"]:
                w = where(bytr[i], m) or "%s@%s:%s" % (i, m.get("l"), m.get("op"))
                ctx.violation(m.get("clause", "?"), w, {"trace": i, "event": m.get("l"), "op": m.get("op"),
                                                         "expected": _short(m.get("exp")), "logged": _short(m.get("got")),
                                                         "event_logged": _short(bytr[i]["events"][m["l"] - 1], 700)
                                                         if "events" in bytr[i] and isinstance(m.get("l"), int) and 0 < m["l"] <= len(bytr[i]["events"]) else None})
    ctx.add_mc("trace:" + name, res, "%d traces" % len(traces), count=False)
    return out


def _short(x, n=1200):
    s = repr(x)
    return x if len(s) <= n else s[:n] + "..."

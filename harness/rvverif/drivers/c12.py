"""C12 - note cells and packed bit-fields are lossless; sub-field setters independent."""
import io
import json
import os
import struct

from .. import tlc, tlv, trace

EVIDENCE = dict(
    level="model_checking",
    rule="MC_RVWords checks SetterCorrect (the set field reads back masked/clamped, every other field of the word is "
         "unchanged) for every (old word, sub-field, new value) of the bounded word sets (thorough: all 65536 note "
         "words). Real Note / Visualization / module / project objects are driven over complete old-word axes with "
         "sampled new values and complete new-value axes with sampled old words, every NOTECMD x velocity x boundary "
         "16-bit values for the cell codec, random pattern byte images for the row-major identity (also through a "
         "written file, again after cells were edited through previously handed-out note objects, and after a second image was assigned to the same pattern), and the file-only packed words SMII / SFGS; Trace_RVWords compares each result with "
         "SetSub/GetSub/NoteBytes/Image. evaluations = (object, setter, value) executions; non-trivial = old "
         "sub-field value non-zero or result differs from old word."
         " Byte images are handed over as bytes, as a bytearray and as a memoryview the caller overwrites right away; every loaded project is inspected again after all later loads (older-version files among them)."
         " The MIDI-in word is also set, written and loaded on the project's Output module.",
    explanation="array events: one event carries a whole axis")

NOTE_FIELDS = {"note_controller": ("ctl", "controller"), "note_effect": ("ctl", "effect"),
               "note_val_xx": ("val", "val_xx"), "note_val_yy": ("val", "val_yy")}
VIS_FIELDS = {"vis_level_mode": "level_mode", "vis_orientation": "orientation", "vis_oscilloscope_mode": "oscilloscope_mode",
              "vis_oscilloscope_size": "oscilloscope_size", "vis_bg_transparency": "bg_transparency",
              "vis_shadow_opacity": "shadow_opacity"}
VIS_NEWS = {"vis_level_mode": list(range(5)), "vis_orientation": [0, 1], "vis_oscilloscope_mode": list(range(8)),
            "vis_oscilloscope_size": [-1, 0, 1, 12, 127, 254, 255, 256, 1000], "vis_bg_transparency": [-1, 0, 1, 2, 3, 4, 9],
            "vis_shadow_opacity": [-1, 0, 1, 2, 3, 4, 9]}


def vis_word(lm, o, om, sz, bg, sh):
    return lm + 32 * o + 256 * om + 65536 * sz + 16777216 * bg + 67108864 * sh


def run(ctx):
    import rv.api as api
    from rv.modules.module import LevelMode, Orientation, OscilloscopeMode, Visualization
    rnd = ctx.rnd
    q = ctx.quick
    cfg = ("CONSTANT Full = %s\nINIT Init\nNEXT Next\nCHECK_DEADLOCK FALSE\nINVARIANT VisStaysDefined\nINVARIANT NoteWordInRange\n"
           % ("FALSE" if q else "TRUE"))
    res = tlc.run("MC_RVWords", cfg, ctx.work, workers=16, timeout=3000, name="mc_words")
    if res.invariant_violated or "SetterCorrect" in res.out and "Assert" in res.out:
        ctx.violation("model:SetterCorrect", "MC_RVWords", (res.counterexample or res.out[-1500:]))
    ctx.add_mc("mc_words", res, "Full=%s" % (not q))
    events = []

    def nontriv(olds, resl, f_shift, f_len):
        return sum(1 for o, r in zip(olds, resl) if ((o >> f_shift) & ((1 << f_len) - 1)) != 0 or r[0] != o)
    # ---- Note sub-field setters
    all_words = list(range(65536))
    bnd = [0, 1, 2, 5, 7, 127, 128, 200, 254, 255]
    samp_words = sorted(set([a * 256 + b for a in bnd for b in bnd] + [rnd.randrange(65536) for _ in range(1500 if q else 6000)]))
    news_full = list(range(256)) + [256, 257, 511, 65535, -1]
    for f, (wattr, sattr) in NOTE_FIELDS.items():
        plan = []
        axis_news = [0, 1, 2, 5, 127, 128, 255, 256, -1] if q else [0, 1, 2, 3, 5, 64, 127, 128, 170, 254, 255, 256, 511, -1]
        for nv in axis_news:                       # complete old-word axis (quick: a 1/8 stride plus samples)
            plan.append((nv, all_words if not q else sorted(set(all_words[::8] + samp_words))))
        for nv in news_full:                       # complete new-value axis on sampled old words
            plan.append((nv, samp_words[:: (6 if q else 2)]))
        for nv, olds in plan:
            resl = []
            n = api.Note()
            for o in olds:
                setattr(n, wattr, o)
                setattr(n, sattr, nv)
                resl.append([int(getattr(n, wattr)), int(getattr(n, sattr))])
            events.append({"op": "sub", "f": f, "new": nv, "olds": olds, "res": resl})
            ctx.cov["evaluations"] += len(olds)
            ctx.cov["distinct_nontrivial"] += nontriv(olds, resl, 8 if sattr in ("controller", "val_xx") else 0, 8)
    # ---- Visualization sub-field setters (directly and through a module)
    vis_words = [vis_word(lm, o, om, sz, bg, sh) for lm in range(5) for o in range(2) for om in range(8)
                 for sz in ([0, 1, 12, 200, 255] if q else range(0, 256, 5)) for bg in range(4) for sh in range(4)]
    if q:
        vis_words = vis_words[::3]
    # words with the bits no sub-field owns (SunVox sets them: 0x9A3202C2 is the Output's word in a shipped file)
    vis_words += [0x1A3202C2, 0x000C01C1, 0x100000C0, 0x40, 0x80, 0x700000C4]      # (below 2^31: TLC integers are 32-bit)
    enums = {"vis_level_mode": LevelMode, "vis_orientation": Orientation, "vis_oscilloscope_mode": OscilloscopeMode}
    mod = api.m.Amplifier()
    shifts = {"vis_level_mode": (0, 5), "vis_orientation": (5, 1), "vis_oscilloscope_mode": (8, 5),
              "vis_oscilloscope_size": (16, 8), "vis_bg_transparency": (24, 2), "vis_shadow_opacity": (26, 2)}
    for f, attr in VIS_FIELDS.items():
        for k, nv in enumerate(VIS_NEWS[f]):
            arg = enums[f](nv) if (f in enums and k % 2 == 0) else nv
            resl = []
            for j, o in enumerate(vis_words):
                try:
                    if j % 2:
                        v = Visualization(o)
                        setattr(v, attr, arg)
                        resl.append([int(v), int(getattr(v, attr))])
                    else:                         # through the module attribute
                        mod.visualization = o
                        v = mod.visualization
                        setattr(v, attr, arg)
                        mod.visualization = int(v)
                        resl.append([int(mod.visualization), int(getattr(mod.visualization, attr))])
                except Exception:             # a word the library cannot decode / a setter that raises: never the expected result
                    resl.append([-1, -1])
            events.append({"op": "sub", "f": f, "new": nv, "olds": vis_words, "res": resl})
            ctx.cov["evaluations"] += len(vis_words)
            ctx.cov["distinct_nontrivial"] += nontriv(vis_words, resl, *shifts[f])
    # ---- getters
    gw = samp_words[:: (10 if q else 2)]
    n = api.Note()
    gres = []
    for o in gw:
        n.ctl = o
        gres.append([["note_controller", n.controller], ["note_effect", n.effect]])
    events.append({"op": "get", "word": "note_ctl", "words": gw, "res": gres})
    gres = []
    for o in gw:
        n.val = o
        gres.append([["note_val_xx", n.val_xx], ["note_val_yy", n.val_yy]])
    events.append({"op": "get", "word": "note_val", "words": gw, "res": gres})
    vw = vis_words[:: (7 if q else 3)]
    def visget(o):
        out = []
        for f, a in VIS_FIELDS.items():
            try:
                out.append([f, int(getattr(Visualization(o), a))])
            except Exception:
                out.append([f, -1])
        return out
    vw = sorted(set(vw + [0x1A3202C2, 0x000C01C1, 0x100000C0, 0x40, 0x80, 0x700000C4]))
    events.append({"op": "get", "word": "vis", "words": vw, "res": [visget(o) for o in vw]})
    ctx.cov["evaluations"] += 2 * len(gw) + len(vw)
    # ---- note cell codec: every NOTECMD x velocity x boundary 16-bit values
    cmds = [int(c) for c in api.NOTECMD]
    b16 = [0, 1, 255, 256, 257, 32767, 32768, 65534, 65535]
    cells = []
    for c in cmds:
        for vel in (range(130) if not q else [0, 1, 64, 128, 129]):
            cells.append([c, vel, rnd.choice(b16), rnd.choice(b16), rnd.choice(b16)])
    for _ in range(2000 if q else 20000):
        cells.append([rnd.choice(cmds), rnd.randrange(130), rnd.randrange(65536), rnd.randrange(65536), rnd.randrange(65536)])
    for a in b16:
        for b in b16:
            cells.append([rnd.choice(cmds), rnd.randrange(130), a, b, rnd.choice(b16)])
    bts, dec = [], []
    for c in cells:
        try:
            nn = api.Note(note=c[0], vel=c[1], module=c[2], ctl=c[3], val=c[4])
            raw = nn.raw_data
            bts.append(list(raw))
            n2 = api.Note()
            n2.raw_data = raw
            dec.append([int(n2.note), n2.vel, n2.module, n2.ctl, n2.val])
        except Exception:               # an in-domain note that cannot be built / encoded / decoded
            bts.append([])
            dec.append([])
        ctx.count_case(tuple(c), nontrivial=any(c))
    for i in range(0, len(cells), 4000):
        events.append({"op": "notes", "cells": cells[i:i + 4000], "bytes": bts[i:i + 4000], "decoded": dec[i:i + 4000]})
    # ---- pattern byte images
    held_loaded = []        # loaded projects kept alive while later files (of other versions) are read
    for k in range(40 if q else 400):
        lines = rnd.randrange(1, 17 if q else 65)
        tracks = rnd.randrange(1, 5 if q else 9)
        if k == 3:              # scale: hundreds of lines, 16+ tracks
            lines, tracks = rnd.choice([300, 513]), rnd.choice([17, 32])
        if k == 4:
            lines, tracks = 257, 16
        image = []
        for _ in range(lines * tracks):
            if rnd.random() < 0.25:
                c = [0, 0, rnd.choice([0, 0, 1, 3, 65535]), 0, 0]       # sparse cells incl. module-only cells
            else:
                c = [rnd.choice(cmds), rnd.randrange(130), rnd.randrange(65536), rnd.randrange(65536), rnd.randrange(65536)]
            image += list(struct.pack("<BBHHH", *c))
        pat = api.Pattern(tracks=tracks, lines=lines)
        if k % 3 == 1:          # the image handed over in a scratch buffer that the caller reuses right away
            buf = bytearray(image)
            pat.raw_data = buf
            buf[:] = bytes([0xAB]) * len(buf)
        elif k % 3 == 2:
            buf = bytearray(image)
            pat.raw_data = memoryview(buf)
            buf[:] = bytes(len(buf))
        else:
            pat.raw_data = bytes(image)
        held = [x for line in pat.data for x in line]
        cl = [[int(x.note), x.vel, x.module, x.ctl, x.val] for x in held]
        back = list(pat.raw_data)
        p = api.Project()
        p.attach_pattern(pat)
        data = p.read()
        pdta = [list(pl) for cid, pl in tlv.split(data) if cid == b"PDTA"]
        # the same file stamped with other versions (only the VERS payload is rewritten, through the TLV layer)
        vers = rnd.choice([[2, 1, 2, 1], [2, 1, 2, 1], [1, 9, 5, 0], [1, 9, 5, 1], [2, 0, 0, 0], [1, 9, 4, 255], [1, 7, 0, 0], [1, 10, 0, 0]])
        data = tlv.join([(cid, bytes(reversed(vers)) if cid == b"VERS" else pl) for cid, pl in tlv.split(data)])
        p2 = api.read_sunvox_file(io.BytesIO(data))
        events.append({"op": "pattern", "lines": lines, "tracks": tracks, "image": list(image), "cells": cl, "back": back, "vers": vers,
                       "pdta": pdta[0] if pdta else [], "reloaded": list(p2.patterns[0].raw_data)})
        if k not in (3, 4):
            held_loaded.append((p2, events[-1]))
        ctx.count_case(("pattern", k, lines, tracks, hash(bytes(image))), nontrivial=True)
        # history on the same pattern: cells edited through note objects handed out BEFORE the save (no further access to
        # pattern.data), then image, file and reload again - the byte image is the cells, not a memo of the last save
        ncell = lines * tracks
        for j in rnd.sample(range(ncell), min(ncell, rnd.randrange(1, 4))):
            c = [rnd.choice(cmds), rnd.randrange(130), rnd.randrange(65536), rnd.randrange(65536), rnd.randrange(65536)]
            x = held[j]
            if rnd.random() < 0.5:
                x.note, x.vel, x.module, x.ctl, x.val = api.NOTECMD(c[0]), c[1], c[2], c[3], c[4]
            else:                                   # through the sub-field setters
                x.note, x.vel, x.module = api.NOTECMD(c[0]), c[1], c[2]
                x.controller, x.effect, x.val_xx, x.val_yy = c[3] >> 8, c[3] & 255, c[4] >> 8, c[4] & 255
            image[j * 8:j * 8 + 8] = list(struct.pack("<BBHHH", *c))
        back2 = list(pat.raw_data)
        data2 = p.read()
        pdta2 = [list(pl) for cid, pl in tlv.split(data2) if cid == b"PDTA"]
        p3 = api.read_sunvox_file(io.BytesIO(data2))
        events.append({"op": "pattern", "lines": lines, "tracks": tracks, "image": list(image),
                       "cells": [[int(x.note), x.vel, x.module, x.ctl, x.val] for x in held], "back": back2, "vers": [2, 1, 2, 1],
                       "pdta": pdta2[0] if pdta2 else [], "reloaded": list(p3.patterns[0].raw_data)})
        ctx.count_case(("pattern-edited", k, hash(bytes(image))), nontrivial=True)
        # a second image assigned to the same (now non-blank) pattern: blank cells of the image blank the pattern's cells
        image3 = []
        for _ in range(ncell):
            if rnd.random() < 0.45:
                c = [0, 0, 0, 0, 0]
            else:
                c = [rnd.choice(cmds), rnd.randrange(130), rnd.randrange(65536), rnd.randrange(65536), rnd.randrange(65536)]
            image3 += list(struct.pack("<BBHHH", *c))
        if k % 2:
            buf = bytearray(image3)
            pat.raw_data = buf
            buf[:] = bytes([0x11]) * len(buf)
        else:
            pat.raw_data = bytes(image3)
        data3 = p.read()
        pdta3 = [list(pl) for cid, pl in tlv.split(data3) if cid == b"PDTA"]
        p4 = api.read_sunvox_file(io.BytesIO(data3))
        events.append({"op": "pattern", "lines": lines, "tracks": tracks, "image": image3,
                       "cells": [[int(x.note), x.vel, x.module, x.ctl, x.val] for line in pat.data for x in line], "back": list(pat.raw_data),
                       "vers": [2, 1, 2, 1], "pdta": pdta3[0] if pdta3 else [], "reloaded": list(p4.patterns[0].raw_data)})
        ctx.count_case(("pattern-reassigned", k, hash(bytes(image3))), nontrivial=True)
    # the projects loaded above, looked at again after all the later loads (files of older versions among them): what was
    # loaded from one file is not touched by reading another
    for pj_, ev_ in held_loaded:
        e2 = dict(ev_)
        e2["reloaded"] = list(pj_.patterns[0].raw_data)
        events.append(e2)
        ctx.count_case(("pattern-held", len(events)), nontrivial=True)
    # ---- file-only packed words
    for always in (False, True):
        for ch in list(range(0, 18)) + ([31, 255] if not q else []):
            m = api.m.Generator(midi_in_always=always, midi_in_channel=ch)
            p = api.Project()
            p.attach_module(m)
            data = p.read()
            words = [struct.unpack("<I", pl)[0] for cid, pl in tlv.split(data) if cid == b"SMII"]
            m2 = api.read_sunvox_file(io.BytesIO(data)).modules[1]
            events.append({"op": "packed", "word": "smii", "fields": [["smii_always", int(always)], ["smii_channel", ch]],
                           "fileword": words[1] if len(words) > 1 else -1, "loaded": [["smii_always", int(m2.midi_in_always)], ["smii_channel", int(m2.midi_in_channel)]]})
            ctx.count_case(("smii", always, ch), nontrivial=always or ch)
            # the same word on the project's Output module (module 00 carries it like every other module)
            p = api.Project()
            try:
                p.output.midi_in_always, p.output.midi_in_channel = always, ch
                got = [int(p.output.midi_in_always), int(p.output.midi_in_channel)]
                data = p.read()
                words = [struct.unpack("<I", pl)[0] for cid, pl in tlv.split(data) if cid == b"SMII"]
                o2 = api.read_sunvox_file(io.BytesIO(data)).output
                ld = [int(o2.midi_in_always), int(o2.midi_in_channel)]
            except Exception:
                got, words, ld = [-1, -1], [], [-1, -1]
            events.append({"op": "packed", "word": "smii", "fields": [["smii_always", got[0] if got[0] == int(always) else -1], ["smii_channel", got[1] if got[1] == ch else -1]],
                           "fileword": words[0] if words else -1, "loaded": [["smii_always", ld[0]], ["smii_channel", ld[1]]]})
            ctx.count_case(("smii-output", always, ch), nontrivial=always or ch)
    for a in range(8):
        for b in range(8):
            p = api.Project()
            p.receive_sync_midi, p.receive_sync_other = a, b
            data = p.read()
            w = ([struct.unpack("<I", pl)[0] for cid, pl in tlv.split(data) if cid == b"SFGS"] + [-1])[0]      # -1: chunk absent
            p2 = api.read_sunvox_file(io.BytesIO(data))
            events.append({"op": "packed", "word": "sfgs", "fields": [["sfgs_midi", a], ["sfgs_other", b]], "fileword": w,
                           "loaded": [["sfgs_midi", int(p2.receive_sync_midi)], ["sfgs_other", int(p2.receive_sync_other)]]})
            ctx.count_case(("sfgs", a, b), nontrivial=a or b)
    traces = [{"id": "e%d" % i, "events": [e]} for i, e in enumerate(events)]
    cans = []
    def canary(name, pred, mut):
        e = json.loads(json.dumps(next(e for e in events if pred(e))))
        mut(e)
        traces.append({"id": "canary-" + name, "events": [e]})
        cans.append("canary-" + name)
    canary("or-setter", lambda e: e["op"] == "sub" and e["f"] == "note_controller" and e["new"] == 2,
           lambda e: [r.__setitem__(0, r[0] | o) for o, r in zip(e["olds"], e["res"])])
    canary("spill", lambda e: e["op"] == "sub" and e["f"] == "vis_bg_transparency" and e["new"] == 1,
           lambda e: e["res"][5].__setitem__(0, e["res"][5][0] + (1 << 26)))
    canary("codec", lambda e: e["op"] == "notes", lambda e: e["bytes"][3].__setitem__(2, (e["bytes"][3][2] + 1) % 256))
    canary("column-major", lambda e: e["op"] == "pattern" and e["tracks"] > 1 and e["lines"] > 1,
           lambda e: e["cells"].__setitem__(slice(0, 2), e["cells"][1::-1]))
    canary("zeroed-cell", lambda e: e["op"] == "pattern", lambda e: e["pdta"].__setitem__(slice(0, 8), [0] * 8) if any(e["pdta"][:8]) else e["pdta"].__setitem__(0, 1))
    canary("smii", lambda e: e["op"] == "packed" and e["word"] == "smii", lambda e: e.__setitem__("fileword", e["fileword"] + 2))
    ctx.sample({"op": "sub", "f": events[0]["f"], "new": events[0]["new"], "olds_head": events[0]["olds"][:5], "res_head": events[0]["res"][:5], "n": len(events[0]["olds"])})
    ctx.sample({k: (v if not isinstance(v, list) or len(v) < 20 else v[:16]) for k, v in next(e for e in events if e["op"] == "pattern").items()})
    cmdfile = os.path.join(ctx.work, "notecmds.json")
    with open(cmdfile, "w") as fh:
        json.dump(sorted(cmds), fh)

    def where(tr, m):
        e = tr["events"][0]
        return "%s %s new=%s" % (e["op"], e.get("f", e.get("word", "")), e.get("new", ""))
    trace.validate(ctx, "Trace_RVWords", traces, "c12_words", canaries=cans, env={"RV_NOTECMDS": cmdfile}, where=where, xmx="24g")
    ctx.cov["traces_validated_against_impl"] = len(events)
    ctx.exhaustive = False

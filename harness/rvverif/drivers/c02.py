"""C02 - every module type survives a .sunsynth round trip and Module.clone()."""
import json

from .. import fmt, gen, specdata

EVIDENCE = dict(
    level="model_checking",
    rule="For each of the 42 non-Output module types: modules with every controller at its minimum, at its maximum and at "
         "random in-range values under every unit, random option assignments and type-specific payloads over the element "
         "types' full ranges are serialized in both contexts - Synth(module).write_to + load, Module.clone(), and inside a "
         "project - and TLC (Trace_RVFormat) checks loaded = Norm(original), loaded = Read(bytes), bytes = Write(original); "
         "one module per type continues as a history (save, edit in place, save, load, edit, save) and one is wrapped in a Synth "
         "while attached to a project; a Synth without a module must raise EmptySynthError and write nothing. non-trivial = the module differs from a "
         "freshly constructed one."
         " Deterministic boundary objects (gen.boundary_sources) are round-tripped stand-alone, cloned and inside a project.",
    explanation="reference evaluation of RVFormat on every generated module; MC_RVFormat supplies the design-level states")


def run(ctx):
    import rv.api as api
    rnd = ctx.rnd
    q = ctx.quick
    path, spec = specdata.write(ctx)
    fmt.mc_format(ctx, path, spec, 5 if q else 30)
    cl = gen.classes()
    traces = []
    per = 6 if q else 120
    for t in sorted(cl):
        fresh = json.dumps(fmt.projection.module(cl[t](), spec), sort_keys=True)
        for k in range(per):
            mode = ["min", "max", "random"][k] if k < 3 else "random"
            mod = gen.rand_module(rnd, cl[t], spec, depth=1 if k % 2 else 0, in_project=False, mode=mode)
            nontrivial = json.dumps(fmt.projection.module(mod, spec), sort_keys=True) != fresh
            evs = [fmt.roundtrip_event(api.Synth(mod), spec, w=True), fmt.clone_event(mod, spec)]
            if k % 2 == 0:
                p = api.Project()
                if rnd.random() < 0.3:
                    p.attach_module(None)
                p.attach_module(mod)
                evs.append(fmt.roundtrip_event(p, spec, w=True))
            if k == 3:          # history on one synth: save, edit in place, save, load, edit the loaded synth, save
                evs += fmt.chain_events(api.Synth(mod), spec, rnd, w=True)[0][1:]
            if k == 5 and fmt.projection.payload(cl[t](), spec)["k"] in ("arrays", "multictl", "wave", "fmx"):
                # a FRESH module whose array payloads are edited element by element (they start out as the documented defaults)
                fm = cl[t]()
                fmt.edit_in_place(api.Synth(fm), spec, rnd, 8)
                evs.append(fmt.roundtrip_event(api.Synth(fm), spec, w=True))
            if k == 4:          # a synth wrapped around a module that lives in a project
                pp = mod.parent or api.Project()
                pp.attach_module(mod)
                pp.connect(mod, pp.output)
                evs.append(fmt.roundtrip_event(api.Synth(mod), spec, w=True))
            for j, ev in enumerate(evs):
                traces.append({"id": "%s#%d.%d" % (t, k, j), "events": [ev]})
                ctx.count_case((t, k, j, json.dumps(ev["orig"], sort_keys=True)), nontrivial=nontrivial)
    # MetaModules exposing all 96 / 95 user-defined controllers (the last one out of step with its embedded target)
    for k, nud in enumerate([96, 96, 95, 89]):
        gen.FORCE_UDC = nud
        try:
            mm96 = gen.rand_module(rnd, cl["MetaModule"], spec, depth=1, in_project=False)
        finally:
            gen.FORCE_UDC = None
        for j, ev in enumerate([fmt.roundtrip_event(api.Synth(mm96), spec, w=True), fmt.clone_event(mm96, spec)]):
            traces.append({"id": "MetaModule-udc%d#%d.%d" % (nud, k, j), "events": [ev]})
            ctx.count_case(("udc", nud, k, j), nontrivial=True)
    for tr in fmt.boundary_traces(spec, kinds=("synth", "project")):      # deterministic boundary values
        traces.append(tr)
        ctx.count_case((tr["id"],), nontrivial=True)
    # a synth without a module refuses to serialize
    buf = []
    class Sink:
        def write(self, b):
            buf.append(bytes(b))
    try:
        api.Synth().write_to(Sink())
        out = "ok"
    except api.Synth.__init__.__globals__["EmptySynthError"]:
        out = "EmptySynthError"
    except Exception as e:
        out = "exception:" + type(e).__name__
    traces.append({"id": "empty-synth", "events": [{"op": "emptysynth", "outcome": out, "written": sum(len(b) for b in buf)}]})
    # ... also where the empty synth sits inside another module (a Sampler's effect), directly, as a clone and inside a project
    for how in ("synth", "clone", "project", "nested"):
        smp = api.m.Sampler()
        smp.effect = api.Synth()
        if how == "nested":
            outer = api.m.Sampler()
            outer.effect = api.Synth(smp)
            smp = outer
        try:
            if how == "clone":
                smp.clone()
                data = b"x"
            elif how == "project":
                pj = api.Project()
                pj.attach_module(smp)
                data = pj.read()
            else:
                data = api.Synth(smp).read()
            out, n = "ok", len(data)
        except api.Synth.__init__.__globals__["EmptySynthError"]:
            out, n = "EmptySynthError", 0
        except Exception as e:
            out, n = "exception:" + type(e).__name__, 0
        traces.append({"id": "empty-effect-" + how, "events": [{"op": "emptysynth", "outcome": out, "written": n}]})
    cans = []
    for k, tr in enumerate([traces[0], traces[7], traces[20]]):
        c = {"id": "canary%d" % k, "events": [fmt.corrupt_first_int(tr["events"][0])]}
        traces.append(c)
        cans.append(c["id"])
    c = {"id": "canary-empty", "events": [{"op": "emptysynth", "outcome": "ok", "written": 12}]}
    traces.append(c)
    cans.append(c["id"])
    ev0 = traces[0]["events"][0]
    ctx.sample({"id": traces[0]["id"], "module": {k: v for k, v in ev0["orig"]["module"][0].items() if k != "payload"}, "n_chunks": len(ev0["chunks"])})
    fmt.validate(ctx, traces, "c02_types", cans, path)
    ctx.cov["module_types"] = len(cl)
    ctx.exhaustive = False

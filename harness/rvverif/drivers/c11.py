"""C11 - module options pack into disjoint bits and read back exactly."""
import io
import itertools
import json
import struct

from .. import specdata, tlc, tlv, trace
from ..ctl import val

EVIDENCE = dict(
    level="model_checking",
    rule="MC_RVOptions explores assignments of every representable value (8-bit options: boundary values; thorough: all "
         "256 and out-of-range ones) to every option of the 5 option-bearing types in any order, with invariants "
         "Unpack(Pack)=id, never-both-on, declared bounds, record covers highest byte, bits disjoint. On real modules: "
         "every value of every option alone, all pairs of options with every combination of representable values "
         "(quick: boundary values of 8-bit options), random full assignments; after the assignments the module is saved "
         "stand-alone and inside a project, the options record is located through the TLV layer and the files are "
         "reloaded; Trace_RVOptions checks assignment result, record bytes = Pack, reloaded values, exclusivity and "
         "bounds. Single assignments are also made by constructor keyword, and every seventh case runs with the library's loggers "
         "at DEBUG. non-trivial = at least one option differs from its default."
         " Labels that spell an option's name (three spellings) on an exposed user-defined controller; an option written on a clone / on the original leaves the other object's options as they were."
         " A child interpreter defines a subclass (one helper method) of every option-bearing class and assigns every option alone on it; the composed model RVSystem (focus options: SysSetOpt is the only action that changes an option) is simulated and explored-and-replayed with state injection.",
    explanation="complete over single options and over pairs within the stated value sets")


def cases(spec, rnd, quick):
    out = []
    for t, st in sorted(spec.items()):
        opts = st["opts"]
        if not opts:
            continue

        def vals(o, wide):
            if o["size"] <= 2:
                return list(range(2 ** o["size"]))
            if wide:
                return list(range(2 ** o["size"])) + ([-1, 256, 300] if o["hasmm"] else [])
            return [0, 1, 2, 95, 96, 97, 127, 128, 254, 255] + ([-1, 256] if o["hasmm"] else [])
        for o in opts:                                   # every representable value of every option alone
            for v in vals(o, True):
                out.append((t, [[o["name"], v]]))
        for a, b in itertools.permutations(opts, 2):     # all ordered pairs
            for va in vals(a, not quick and a["size"] > 2 and b["size"] <= 2):
                for vb in vals(b, False):
                    out.append((t, [[a["name"], va], [b["name"], vb]]))
        for _ in range(150 if quick else 3000):          # random full assignments, random order, with repeats
            ops = []
            for o in rnd.sample(opts, len(opts)) + rnd.sample(opts, min(3, len(opts))):
                ops.append([o["name"], rnd.choice(vals(o, True))])
            out.append((t, ops))
    return out


def chnm_chdt(data):
    """[(chnm, chdt bytes)] of the first module section of a chunk stream, top level only."""
    out = []
    cur = None
    for cid, payload in tlv.split(data):
        if cid == b"CHNM":
            cur = struct.unpack("<I", payload)[0]
        elif cid == b"CHDT" and cur is not None:
            out.append([cur, list(payload)])
            cur = None
    return out


class debug_logging:
    """The library's loggers at DEBUG (records discarded): behaviour must not depend on the logging configuration."""

    def __enter__(self):
        import logging
        self.lg = logging.getLogger("rv")
        self.disabled = logging.root.manager.disable      # (the harness silences the library's warnings process-wide)
        logging.disable(logging.NOTSET)
        self.saved = (self.lg.level, self.lg.propagate, list(self.lg.handlers))
        self.lg.handlers = [logging.NullHandler()]
        self.lg.propagate = False
        self.lg.setLevel(logging.DEBUG)
        self.children = []
        for name, obj in list(logging.Logger.manager.loggerDict.items()):
            if name.startswith("rv.") and isinstance(obj, logging.Logger):
                self.children.append((obj, obj.level))
                obj.setLevel(logging.NOTSET)

    def __exit__(self, *a):
        self.lg.setLevel(self.saved[0])
        self.lg.propagate = self.saved[1]
        self.lg.handlers = self.saved[2]
        for obj, lvl in self.children:
            obj.setLevel(lvl)
        import logging
        logging.disable(self.disabled)


def run_case(api, classes, t, ops, base=None, kwarg=False):
    """base: a module obtained by loading (its options are the event's init); None: fresh module.
    kwarg: the (single) assignment is made by constructor keyword instead of attribute assignment."""
    cls = classes[t]
    names = sorted(cls.options)
    if kwarg:
        m = cls(**{n: v for n, v in ops})
    else:
        m = cls() if base is None else base
    init = [] if base is None else [[n, val(getattr(m, n))] for n in names]
    for n, v in ([] if kwarg else ops):
        setattr(m, n, v)
    logical = [[n, val(getattr(m, n))] for n in names]
    files = []
    # stand-alone synth
    data = api.Synth(m).read()
    m2 = api.read_sunvox_file(io.BytesIO(data)).module
    files.append({"ctx": "synth", "chunks": chnm_chdt(data), "loaded": [[n, val(getattr(m2, n))] for n in names]})
    # inside a project
    p = api.Project()
    p.attach_module(m)
    data = p.read()
    p2 = api.read_sunvox_file(io.BytesIO(data))
    m3 = p2.modules[1]
    chunks = tlv.split(data)
    # the module section of module 1: after the second SFFF
    idx = [i for i, (cid, _) in enumerate(chunks) if cid == b"SFFF"][1]
    files.append({"ctx": "project", "chunks": chnm_chdt(tlv.join(chunks[idx:])), "loaded": [[n, val(getattr(m3, n))] for n in names]})
    return {"op": "opts", "t": t, "ops": ops, "init": init, "logical": logical, "files": files}, m2, m3


def _subclass_child():
    """(child process) A user-defined SUBCLASS of every option-bearing module class (helper methods only): each option assigned
    alone on the subclass, saved stand-alone and in a project, loaded back.  Prints the `opts` events as JSON."""
    import sys
    from ..common import setup_repo_path
    setup_repo_path()
    import rv.api as api
    import rv.modules
    spec = json.load(sys.stdin)
    events = []
    for t in sorted(spec):
        base = rv.modules.MODULE_CLASSES[t]
        sub = type("My" + base.__name__, (base,), {"describe": lambda self: "%s with %d options" % (self.mtype, len(type(self).options))})
        for o in spec[t]["opts"]:
            if o["name"] == "user_defined_controllers":
                continue
            v = 1 if o["size"] == 1 else (o["max"] if o["hasmm"] else 2 ** o["size"] - 1)
            try:
                ev, _, _ = run_case(api, {t: sub}, t, [[o["name"], v]])
            except Exception as ex:
                ev = {"op": "opts", "t": t, "ops": [[o["name"], v]], "init": [], "logical": [], "files": [], "raised": type(ex).__name__}
            events.append(ev)
    json.dump(events, sys.stdout)


def subclass_events(spec):
    import subprocess
    import sys
    r = subprocess.run([sys.executable, "-c", "from rvverif.drivers.c11 import _subclass_child; _subclass_child()"],
                       input=json.dumps(spec), capture_output=True, text=True, timeout=600)
    if r.returncode != 0:
        from ..common import MachineryError
        raise MachineryError("subclass child failed: " + r.stderr[-800:])
    return json.loads(r.stdout)


def run(ctx):
    import rv.api as api
    import rv.modules
    path, spec = specdata.write(ctx)
    q = ctx.quick
    cfg = ("CONSTANT Wide = %s\nINIT Init\nNEXT Next\nCHECK_DEADLOCK FALSE\n" % ("FALSE" if q else "TRUE")
           + "".join("INVARIANT %s\n" % i for i in ("RoundTrip", "Exclusive", "Bounds", "Covers", "SpecOK")))
    res = tlc.run("MC_RVOptions", cfg, ctx.work, env={"RV_SPECDATA": path}, workers=16, timeout=3000, name="mc_options")
    if res.invariant_violated:
        ctx.violation("model:" + res.invariant_violated, "MC_RVOptions", res.counterexample[:2000])
    ctx.add_mc("mc_options", res, "all option-bearing types; Wide=%s" % (not q))
    classes = dict(rv.modules.MODULE_CLASSES)
    cs = cases(spec, ctx.rnd, q)
    events = []
    for k, (t, ops) in enumerate(cs):
        if k % 7 == 3:          # with the library's loggers at DEBUG
            with debug_logging():
                e, m2, m3 = run_case(api, classes, t, ops)
        else:
            e, m2, m3 = run_case(api, classes, t, ops)
        events.append(e)
        o0 = next(o for o in spec[t]["opts"] if o["name"] == ops[0][0])
        coupled = o0["exclusive_of"] or any(o0["name"] in p_["exclusive_of"] for p_ in spec[t]["opts"])
        if len(ops) == 1 and not coupled and (o0["size"] == 1 or 0 <= ops[0][1] < 2 ** o0["size"] or o0["hasmm"]):
            # the same single assignment by constructor keyword (options without exclusivity coupling: the constructor
            # applies the partners' defaults afterwards)
            ek, _, _ = run_case(api, classes, t, ops, kwarg=True)
            events.append(ek)
            ctx.count_case((t, "kwarg", json.dumps(ops)), nontrivial=True)
        if k % 3 == 0:      # edit the module that came out of a load, save and load again
            ops2 = [[n, ctx.rnd.choice([0, 1] if o["size"] == 1 else [0, 1, 2 ** o["size"] - 1])]
                    for o in ctx.rnd.sample(spec[t]["opts"], min(3, len(spec[t]["opts"]))) for n in [o["name"]]]
            base = m2 if k % 2 else m3
            if base.parent is not None:       # detach the loaded module from its loaded project by cloning the bytes
                base = api.read_sunvox_file(io.BytesIO(api.Synth(base).read())).module
            e2, _, _ = run_case(api, classes, t, ops2, base=base)
            events.append(e2)
            ctx.count_case((t, "loaded", json.dumps(e2["init"]), json.dumps(ops2)), nontrivial=e2["init"] != e2["logical"])
        dflt = {o["name"]: o["default"] for o in spec[t]["opts"]}
        ctx.count_case((t, json.dumps(ops)), nontrivial=any(dflt.get(n) != v for n, v in e["logical"]))
    # modules read from files whose options record is SHORTER than the type's record (older files; the shipped fixtures, and
    # library-written synths with the record cut through the TLV layer), then options beyond the old length are set
    from .. import fmt
    shortsrc = [(n, d) for n, d in fmt.fixtures() if n.endswith(".sunsynth")]
    for t in sorted(spec):
        if spec[t]["opts"]:
            chunks = tlv.split(api.Synth(classes[t]()).read())
            for cut in (1, 2, 4):
                out, cur = [], None
                for cid, pl in chunks:
                    if cid == b"CHNM":
                        cur = struct.unpack("<I", pl)[0]
                    if cid == b"CHDT" and cur == spec[t]["options_chnm"] and len(pl) > cut:
                        pl = pl[:cut]
                    out.append((cid, pl))
                shortsrc.append(("%s.record-cut-%d" % (t, cut), tlv.join(out)))
    for name, data in shortsrc:
        try:
            lm = api.read_sunvox_file(io.BytesIO(data)).module
        except Exception:
            continue
        t = lm.mtype if lm is not None else None
        if t not in spec or not spec[t]["opts"] or getattr(lm, "is_legacy", False):
            continue            # (a legacy-layout Sampler is written back verbatim: reported under C06 / C16)
        hi = sorted(spec[t]["opts"], key=lambda o: (o["byte"], o["bit"]))[-3:]
        for o in hi:
            if o["exclusive_of"] or any(o["name"] in p_["exclusive_of"] for p_ in spec[t]["opts"]):
                continue
            lm2 = api.read_sunvox_file(io.BytesIO(data)).module
            e3, _, _ = run_case(api, classes, t, [[o["name"], 1 if o["size"] == 1 else 2 ** o["size"] - 1]], base=lm2)
            events.append(e3)
            ctx.count_case((name, "short-record", o["name"]), nontrivial=True)
    # a MetaModule whose exposed user-defined controllers carry labels made of characters a slug drops (every attribute
    # assignment recomputes the label aliases), and assignments made while the process is in lenient mode
    from rv.errors import override_raise_controller_value_errors
    for lab in ("♪♪", "!!!", "😀", "\U0001d11e", " ", "9 lives"):
        for o in spec["MetaModule"]["opts"]:
            if o["exclusive_of"] or any(o["name"] in p_["exclusive_of"] for p_ in spec["MetaModule"]["opts"]) or o["name"] == "user_defined_controllers":
                continue
            mm = api.m.MetaModule()
            mm.project.new_module(api.m.Amplifier)
            mm.mappings.values[0].module, mm.mappings.values[0].controller = 1, 0
            mm.user_defined_controllers = 1
            mm.update_user_defined_controllers()
            mm.user_defined[0].label = lab
            try:
                e4, _, _ = run_case(api, classes, "MetaModule", [[o["name"], 1 if o["size"] == 1 else 3]], base=mm)
                events.append(e4)
            except Exception as ex:
                events.append({"op": "opts", "t": "MetaModule", "ops": [[o["name"], 1]], "init": [], "logical": [], "files": [],
                               "raised": type(ex).__name__})
            ctx.count_case(("label", lab, o["name"]), nontrivial=True)
    # ... and labels that spell an OPTION's name (the label alias is u_<slug>; the option keeps its own name)
    for o in spec["MetaModule"]["opts"]:
        if o["exclusive_of"] or any(o["name"] in p_["exclusive_of"] for p_ in spec["MetaModule"]["opts"]) or o["name"] == "user_defined_controllers":
            continue
        for lab in (o["name"], o["name"].replace("_", " ").capitalize(), "u_" + o["name"]):
            mm = api.m.MetaModule()
            mm.project.new_module(api.m.Amplifier)
            mm.mappings.values[0].module, mm.mappings.values[0].controller = 1, 0
            mm.user_defined_controllers = 1
            mm.update_user_defined_controllers()
            mm.user_defined[0].label = lab
            try:
                e4, _, _ = run_case(api, classes, "MetaModule", [[o["name"], 1 if o["size"] == 1 else 3]], base=mm)
                events.append(e4)
            except Exception as ex:
                events.append({"op": "opts", "t": "MetaModule", "ops": [[o["name"], 1]], "init": [], "logical": [], "files": [],
                               "raised": type(ex).__name__})
            ctx.count_case(("label-spells-option", lab, o["name"]), nontrivial=True)
    # a clone has its own options: writes on the clone leave the original as it was, and the other way round (the event's
    # initial state is the untouched object's state BEFORE the other one was written; no assignment is made to it)
    for t in sorted(spec):
        names_ = sorted(classes[t].options)
        for o in spec[t]["opts"]:
            if o["name"] == "user_defined_controllers":
                continue
            for who in ("clone-written", "original-written"):
                a = classes[t]()
                b = a.clone()
                before = [[n, val(getattr(a, n))] for n in names_]
                written, kept = (b, a) if who == "clone-written" else (a, b)
                cur = val(getattr(written, o["name"]))
                nv = (0 if cur else 1) if o["size"] == 1 else ((o["max"] if cur != o["max"] else o["min"]) if o["hasmm"] else (cur + 1) % (2 ** o["size"]))
                try:
                    setattr(written, o["name"], nv)
                    ec, _, _ = run_case(api, classes, t, [], base=kept)
                    ec["init"] = before
                except Exception as ex:
                    ec = {"op": "opts", "t": t, "ops": [], "init": before, "logical": [], "files": [], "raised": type(ex).__name__}
                events.append(ec)
                ctx.count_case((t, who, o["name"]), nontrivial=True)
    for t in sorted(spec):
        for o in spec[t]["opts"]:
            if not o["hasmm"]:
                continue
            for v in (-1, 0, o["max"], o["max"] + 1, 200, 255):
                with override_raise_controller_value_errors(False):
                    e5, _, _ = run_case(api, classes, t, [[o["name"], v]])
                events.append(e5)
                ctx.count_case((t, "lenient", o["name"], v), nontrivial=True)
    # both options of a mutually exclusive pair given as constructor keywords (applied in the class's own order)
    for t in sorted(spec):
        order = list(classes[t].options)        # the order in which the constructor applies its keywords
        for o in spec[t]["opts"]:
            for pn in o["exclusive_of"]:
                pair = sorted([o["name"], pn], key=order.index)
                ek, _, _ = run_case(api, classes, t, [[pair[0], 1], [pair[1], 1]], kwarg=True)
                events.append(ek)
                ctx.count_case((t, "kwarg-pair", json.dumps(pair)), nontrivial=True)
    for ev_ in subclass_events(spec):         # user-defined subclasses of the option-bearing classes (in an interpreter of their own)
        events.append(ev_)
        ctx.count_case(("subclass", ev_["t"], json.dumps(ev_["ops"])), nontrivial=True)
    traces = []
    per = 200
    for i in range(0, len(events), per):
        traces.append({"id": "b%d" % (i // per), "events": events[i:i + per]})
    cans = []
    def canary(name, pred, mut):
        # (built from the first recorded event the mutation applies to; a library that records no such event - e.g. one that
        #  writes no options record at all - is judged by the ordinary traces, the self-test is then not applicable)
        for src in events:
            if not ("files" in src and len(src["files"]) == 2 and pred(src)):
                continue
            e = json.loads(json.dumps(src))
            try:
                mut(e)
            except (StopIteration, IndexError, KeyError):
                continue
            traces.append({"id": "canary-" + name, "events": [e]})
            cans.append("canary-" + name)
            return
    def optchunk(e, k):
        return next(c for c in e["files"][k]["chunks"] if c[0] == spec[e["t"]]["options_chnm"])
    canary("record-bit", lambda e: e["t"] == "MultiSynth", lambda e: optchunk(e, 0)[1].__setitem__(0, optchunk(e, 0)[1][0] ^ 1))
    canary("reloaded", lambda e: e["t"] == "Sampler", lambda e: e["files"][1]["loaded"][0].__setitem__(1, 1 - e["files"][1]["loaded"][0][1]))
    canary("unclamped", lambda e: e["t"] == "MetaModule" and any(n == "user_defined_controllers" and v > 96 for n, v in e["ops"][-1:]),
           lambda e: [x for x in e["logical"] if x[0] == "user_defined_controllers"][0].__setitem__(1, 200))
    canary("short-record", lambda e: e["t"] == "Sampler", lambda e: e["files"][0]["chunks"].__setitem__(
        [i for i, c in enumerate(e["files"][0]["chunks"]) if c[0] == spec["Sampler"]["options_chnm"]][0],
        [spec["Sampler"]["options_chnm"], e["files"][0]["chunks"][[i for i, c in enumerate(e["files"][0]["chunks"]) if c[0] == spec["Sampler"]["options_chnm"]][0]][1][:-1]]))
    ctx.sample({k: (v if k != "files" else [{"ctx": f["ctx"], "loaded": f["loaded"][:4], "nchunks": len(f["chunks"])} for f in v]) for k, v in events[len(events) // 2].items()})

    def where(tr, m):
        e = tr["events"][m["l"] - 1]
        return "%s ops=%s" % (e["t"], json.dumps(e["ops"])[:300])
    trace.validate(ctx, "Trace_RVOptions", traces, "c11_opts", canaries=cans, env={"RV_SPECDATA": path}, where=where)
    # options inside the composed workspace model (RVSystem, focus "options": the plain modules are MetaModules with two one-bit
    # options): only an option assignment changes an option - attach, connect, save+load of the project, a failed load elsewhere
    # and Module.clone() keep them; simulated behaviours replayed without, explored transitions with state injection
    from .. import system
    system.simulate_and_replay(ctx, 120 if ctx.quick else 3000, 12 if ctx.quick else 18, nm=5, np_=1, focus="options")
    system.graph_replay(ctx, ctx.quick, emitk=8 if ctx.quick else 6, focus="options")
    ctx.cov["traces_validated_against_impl"] = len(events)
    ctx.exhaustive = False

"""C04 - loading decodes foreign files per the format and skips unknown chunks."""
import copy
import json
import struct

from .. import fmt, gen, specdata, tlv
from ..common import MachineryError

EVIDENCE = dict(
    level="model_checking",
    rule="RVFormat!Read is the independent decoder (a mode machine written from the format document). (i) every shipped "
         "fixture is TLV-split and TLC compares Read(chunks) with the projection of what the library loaded; (ii) structure-"
         "preserving edits of the fixtures and of generated files: a chunk with an unknown id (three different ids, also ids "
         "that only another section knows) inserted at chunk positions incl. inside embedded containers - TLC additionally "
         "checks Read(edited) = Read(original); each optional chunk dropped; the CVAL list truncated to every length; "
         "independent header chunks reordered; stored controller values outside the nominal ranges (module sections behind "
         "embedded containers first); empty module positions appended behind the last module; (iii) reference-encoded files: TLC evaluates Write(s) for abstract "
         "descriptions (older version stamps, absent BVER, extreme field values), the TLV joiner makes bytes, the real reader "
         "loads them. MC_RVFormat checks Unknown (insertion invariance) and RW on the bounded model. "
         "non-trivial = an edited or reference-encoded file."
         " Further edits: a data block with a number the module type does not use (CHNM/CHDT/CHFF/CHFR) in front of SEND and in front of the first known block; the module record carries the six sub-fields of the SVPR word (RVFormat!VisF); deterministic boundary sources (waveform -128, sampler slot 127, background transparency different from shadow opacity)."
         " The deterministic boundary projects are also encoded by the spec (Write) and loaded by the real reader.",
    explanation="the oracle is the spec's decoder, never the library's writer")

JUNK_IDS = ["XxXx", "zzzz", "ABCD"]
OPTIONAL = ["BVER", "FLGS", "SFGS", "TGD2", "TIME", "REPS", "SMIN", "SLnK", "PNME", "CMID", "CHNK", "SVPR", "SZZZ", "SCOL", "SMII",
            "SMIC", "SMIB", "SMIP", "SSCL", "SFIN", "SREL", "LGEN", "SELS", "PATN", "PATT", "PATL", "CURL", "LMSK", "MXOF", "MYOF",
            "MSCL", "MZOO", "GVOL", "TGRD", "SPED", "BPM ", "NAME", "PYSZ", "PFLG", "PICO", "PFGC", "PBGC", "PFFF", "PXXX", "PYYY", "CHFF", "CHFR"]


def positions(chunks, prefix=()):
    """All insertion positions (path, index) of a nested chunk list, depth first."""
    out = []
    for i in range(1, len(chunks) + 1):
        out.append((prefix, i))
        if chunks[i - 1]["isn"]:
            out.extend(positions(chunks[i - 1]["nested"], prefix + (i - 1,)))
    return out


def at(chunks, path):
    for k in path:
        chunks = chunks[k]["nested"]
    return chunks


def run(ctx):
    import rv.api as api
    rnd = ctx.rnd
    q = ctx.quick
    path, spec = specdata.write(ctx)
    fmt.mc_format(ctx, path, spec, 6 if q else 40, unknown_every=3 if q else 1)
    traces = []
    sources = list(fmt.fixtures())
    for i in range(6 if q else 60):
        p = gen.rand_project(rnd, spec, depth=rnd.choice([0, 1, 2]), small=True)
        sources.append(("gen%d.sunvox" % i, p.read()))
    for i in range(3 if q else 30):      # clones and patterns left of / above the timeline origin (signed positions)
        p = gen.rand_project(rnd, spec, depth=0, small=True, nmods=1)
        p.attach_pattern(api.Pattern(tracks=1, lines=2, x=-4 - i, y=-1))
        p.attach_pattern(api.PatternClone(source=len(p.patterns) - 1, x=-7 - i, y=-2147483648))
        p.attach_pattern(api.PatternClone(source=0, x=2147483647, y=-1, flags_PFFF=9))
        sources.append(("gen-clones%d.sunvox" % i, p.read()))
    cl = gen.classes()
    for i in range(5 if q else 25):      # MetaModules exposing all 96 / 95 / few user-defined controllers
        gen.FORCE_UDC = [96, 96, 95, 89, 2][i % 5]
        try:
            sources.append(("gen-meta%d.sunsynth" % i, api.Synth(gen.rand_module(rnd, cl["MetaModule"], spec, depth=1, in_project=False)).read()))
        finally:
            gen.FORCE_UDC = None
    for i in range(3 if q else 20):      # Samplers (boundary slots, long envelopes, embedded effect)
        sources.append(("gen-sampler%d.sunsynth" % i, api.Synth(gen.rand_module(rnd, cl["Sampler"], spec, depth=1, in_project=False)).read()))
    for nm, obj in gen.boundary_sources(spec):       # deterministic boundary values (independent of the random stream)
        sources.append((nm, obj.read()))
    nfix = 0
    for name, data in sources:
        base = tlv.to_json_nested(data)
        if not name.startswith("gen"):
            nfix += 1
        traces.append({"id": name, "events": [fmt.load_event(data, spec)]})
        ctx.count_case((name, "as-is"), nontrivial=False)
        # (ii-a) unknown chunk at chunk positions
        pos = positions(base)
        if q:
            rnd.shuffle(pos)
            pos = pos[:max(6, len(pos) // 6)]
        elif len(pos) > 120 and name.startswith("gen"):      # (thorough: every position of the fixtures, 120 sampled ones of large generated files)
            rnd.shuffle(pos)
            pos = pos[:120]
        for k, (pth, i) in enumerate(pos):
            ed = copy.deepcopy(base)
            jid = JUNK_IDS[k % len(JUNK_IDS)]
            at(ed, pth).insert(i, {"id": jid, "data": [rnd.randrange(256) for _ in range(rnd.choice([0, 3, 4, 9]))], "isn": False, "nested": []})
            out, lo = fmt.load(tlv.from_json_nested(ed))
            traces.append({"id": "%s+%s@%s%d" % (name, jid, "/".join(map(str, pth)) + ":" if pth else "", i),
                           "events": [{"op": "load_same", "chunks": ed, "same_as": base, "outcome": out,
                                       "obj": fmt.projection.project_any(lo, spec, True) if lo is not None else {"kind": "none"}}]})
            ctx.count_case((name, "junk", pth, i, jid))
        # (ii-b) an id that only another section knows, inserted where it is unknown (judged by the spec's reader)
        for _ in range(2 if q else 12):
            pth, i = rnd.choice(positions(base))
            ed = copy.deepcopy(base)
            at(ed, pth).insert(i, {"id": rnd.choice(["GVOL", "BPM ", "PYSZ", "PICO", "SFIN", "SMIC", "MXOF"]), "data": [1, 0, 0, 0], "isn": False, "nested": []})
            traces.append({"id": "%s+foreign-id@%s:%d#%d" % (name, pth, i, len(traces)), "events": [fmt.load_event(tlv.from_json_nested(ed), spec)]})
            ctx.count_case((name, "foreign-id", pth, i, len(traces)))
        # (ii-c) each optional chunk dropped (one occurrence at a time, sampled in quick)
        occ = [(pth, i) for pth, i in positions(base) if at(base, pth)[i - 1]["id"] in OPTIONAL]
        if q:
            rnd.shuffle(occ)
            occ = occ[:6]
        for pth, i in occ:
            ed = copy.deepcopy(base)
            dropped = at(ed, pth).pop(i - 1)
            traces.append({"id": "%s-%s@%s:%d" % (name, dropped["id"], pth, i), "events": [fmt.load_event(tlv.from_json_nested(ed), spec)]})
            ctx.count_case((name, "drop", pth, i))
        # (ii-d) CVAL list truncated to every length (first module section that has CVALs)
        idx = [i for i, c in enumerate(base) if c["id"] == "CVAL"]
        if idx:
            first = idx[0]
            run_ = [i for i in idx if i - first == idx.index(i)]
            for keep in (range(len(run_)) if not q else sorted(set([0, 1, len(run_) // 2, len(run_) - 1]))):
                ed = [c for j, c in enumerate(base) if j not in run_[keep:]]
                traces.append({"id": "%s.cvals[:%d]" % (name, keep), "events": [fmt.load_event(tlv.from_json_nested(ed), spec)]})
                ctx.count_case((name, "cvals", keep))
        # (ii-e) independent header chunks reordered
        hdr = [i for i, c in enumerate(base) if c["id"] in ("BPM ", "SPED", "TGRD", "GVOL", "NAME", "MSCL", "MZOO", "MXOF", "MYOF", "LMSK", "CURL", "SELS", "LGEN")]
        if len(hdr) > 3:
            ed = copy.deepcopy(base)
            perm = hdr[:]
            rnd.shuffle(perm)
            for a, b in zip(hdr, perm):
                ed[a] = base[b]
            traces.append({"id": name + ".header-reordered", "events": [fmt.load_event(tlv.from_json_nested(ed), spec)]})
            ctx.count_case((name, "reorder"))
        # (ii-g) stored controller values outside the library's nominal ranges (the encoding still denotes a value; the
        #        reader is lenient): every CVAL of one module section overwritten, sections behind embedded containers first
        secs = fmt.ranged_cval_sections(base, spec)
        after_container = [sec for k, (sec, _) in enumerate(secs) if any(isn for _, isn in secs[:k + 1])]
        pick = (after_container[:2] + [sec for sec, _ in secs][: (1 if q else 4)]) if q else after_container + [sec for sec, _ in secs]
        for k, sec in enumerate(pick):
            ed = fmt.out_of_range_variant(base, sec, rnd)
            traces.append({"id": "%s.cvals-out-of-range#%d" % (name, k), "events": [fmt.load_event(tlv.from_json_nested(ed), spec)]})
            ctx.count_case((name, "cval-oor", k, len(traces)))
        # (ii-h) empty module positions appended behind the last module (SunVox writes its whole module table)
        if base and base[0]["id"] == "SVOX":
            last = max(j for j, c in enumerate(base) if c["id"] == "SEND") if any(c["id"] == "SEND" for c in base) else None
            if last is not None:
                for extra in ((1, 3) if q else (1, 2, 3, 5)):
                    ed = base[:last + 1] + [{"id": "SEND", "data": [], "isn": False, "nested": []}] * extra + base[last + 1:]
                    traces.append({"id": "%s.trailing-empty+%d" % (name, extra), "events": [fmt.load_event(tlv.from_json_nested(ed), spec)]})
                    ctx.count_case((name, "trailing-empty", extra))
        # (ii-j) a data block with a number the module type does not use (newer SunVox versions add such blocks): CHNM/CHDT/CHFF/CHFR
        #        groups in front of a module section's SEND and in front of its first known block; the spec's reader ignores them
        secs_end = [(pth, i) for pth, i in positions(base) if i >= 1 and at(base, pth)[i - 1]["id"] == "SEND"
                    and any(c["id"] == "STYP" for c in at(base, pth)[:i - 1])]
        if q:
            rnd.shuffle(secs_end)
            secs_end = secs_end[:3] if not name.startswith("bnd") else secs_end[:8]
        for k, (pth, i) in enumerate(secs_end):
            lst = at(base, pth)
            start = max([j for j in range(i - 1) if lst[j]["id"] == "SFFF"] or [0])
            firstblk = next((j for j in range(start, i - 1) if lst[j]["id"] == "CHNM"), i - 1)
            styp = bytes(next(c["data"] for c in lst[start:i - 1] if c["id"] == "STYP")).split(b"\0")[0]
            unused = {b"MetaModule": [3, 4, 5, 6, 7], b"Sampler": [0x109, 0x10B, 0x200, 0x7000], b"MultiCtl": [2, 3, 5, 7, 0x7000]}.get(styp, [4, 5, 7, 0x7000, 6])
            for where, num in ((i - 1, unused[k % len(unused)]), (firstblk, unused[(k + 1) % len(unused)])):
                ed = copy.deepcopy(base)
                grp = [{"id": "CHNM", "data": list(num.to_bytes(4, "little")), "isn": False, "nested": []},
                       {"id": "CHDT", "data": [rnd.randrange(256) for _ in range(rnd.choice([0, 6, 32, 514]))], "isn": False, "nested": []},
                       {"id": "CHFF", "data": [rnd.choice([0, 1, 5]), 0, 0, 0], "isn": False, "nested": []},
                       {"id": "CHFR", "data": [0x44, 0xAC, 0, 0], "isn": False, "nested": []}]
                at(ed, pth)[where:where] = grp
                traces.append({"id": "%s+block%d@%s:%d" % (name, num, "/".join(map(str, pth)), where),
                               "events": [fmt.load_event(tlv.from_json_nested(ed), spec)]})
                ctx.count_case((name, "unknown-block", pth, where, num))
        # (ii-i) the two version chunks: BVER in front of VERS, BVER alone dropped, both dropped
        iv_ = [j for j, c in enumerate(base) if c["id"] == "VERS"][:1]
        ib_ = [j for j, c in enumerate(base) if c["id"] == "BVER"][:1]
        if iv_ and ib_ and base[0]["id"] == "SVOX":
            ed = copy.deepcopy(base)
            ed[iv_[0]], ed[ib_[0]] = base[ib_[0]], base[iv_[0]]
            traces.append({"id": name + ".bver-before-vers", "events": [fmt.load_event(tlv.from_json_nested(ed), spec)]})
            ed = [c for j, c in enumerate(base) if j not in (iv_[0], ib_[0])]
            traces.append({"id": name + ".no-version-chunks", "events": [fmt.load_event(tlv.from_json_nested(ed), spec)]})
            ctx.count_case((name, "version-chunks"))
    # (ii-f) files without any slot chunk (as older SunVox versions wrote them): link-rich projects, every SLnK removed
    from .. import links
    for i in range(25 if q else 400):
        n = rnd.randrange(3, 8)
        tr = links.random_history(ctx, rnd, "x", n, rnd.randrange(6, 30), links.simple_classes()[:6])
        p = links.make_project(n, rnd, links.simple_classes()[:6])
        links.set_tables(p, tr["events"][-1]["post"])
        base = tlv.to_json_nested(p.read())
        ed = [c for c in base if c["id"] != "SLnK"]
        traces.append({"id": "links%d.no-slot-chunks" % i, "events": [fmt.load_event(tlv.from_json_nested(ed), spec)]})
        ctx.count_case(("noslots", i, json.dumps(tr["events"][-1]["post"])))
    if nfix < 50:
        raise MachineryError("only %d fixtures found" % nfix)
    # (iii) reference-encoded files: the spec is the encoder
    enc = []
    VERS = [[1, 7, 0, 0], [1, 9, 4, 0], [1, 9, 5, 0], [2, 0, 0, 0], [2, 1, 2, 1], [1, 9, 4, 255], [1, 9, 5, 1]]
    for i in range(14 if q else 300):
        p = gen.rand_project(rnd, spec, depth=rnd.choice([0, 1]), small=True)
        if i < len(VERS):       # every version stamp once with a pattern whose notes name module numbers above 255
            bp = api.Pattern(tracks=2, lines=4)
            for j, mnum in enumerate([300, 256, 255, 7, 65535, 257, 1, 0]):
                n_ = bp.data[j // 2][j % 2]
                n_.note, n_.module = api.NOTECMD.C4, mnum
            p.attach_pattern(bp)
        o = fmt.projection.project_any(p, spec)
        o["proj"]["vers"] = VERS[i] if i < len(VERS) else rnd.choice(VERS)
        o["proj"]["bver"] = rnd.choice([[1, 9, 0, 0], [2, 1, 2, 1]])
        o["proj"]["time"] = rnd.choice([0, 5, -7])
        enc.append({"id": "ref%d" % i, "events": [{"op": "encode", "obj": o}]})
    for nm, obj in gen.boundary_sources(spec):      # the boundary projects encoded by the spec as well (not by the library's writer)
        if isinstance(obj, api.Project):
            enc.append({"id": "ref-" + nm, "events": [{"op": "encode", "obj": fmt.projection.project_any(obj, spec)}]})
    res = fmt.validate(ctx, enc, "c04_encode", [], path)
    for tr in enc:
        msgs = res[tr["id"]].get("other", [])
        if not msgs:
            raise MachineryError("no ENCODED message for " + tr["id"])
        data = tlv.from_json_nested(msgs[0]["chunks"])
        traces.append({"id": tr["id"], "events": [fmt.load_event(data, spec)]})
        ctx.count_case((tr["id"], hash(data)))
    ctx.cov["traces_validated_against_impl"] -= len(enc)
    cans = []
    def canary(name, pred, mut):
        src = next((t for t in traces if pred(t)), None)
        if src is None:
            return
        c = json.loads(json.dumps(src))
        c["id"] = "canary-" + name
        mut(c["events"][0])
        traces.append(c)
        cans.append(c["id"])
    canary("field", lambda t: t["events"][0]["op"] == "load" and t["events"][0]["obj"].get("kind") == "project",
           lambda e: e["obj"]["proj"].__setitem__("lgen", e["obj"]["proj"]["lgen"] + 1))
    canary("junk-terminates-module", lambda t: t["events"][0]["op"] == "load_same" and t["events"][0]["obj"].get("kind") == "synth" and t["events"][0]["obj"]["module"][0]["ctl"],
           lambda e: e["obj"]["module"][0]["ctl"].__setitem__(0, e["obj"]["module"][0]["ctl"][0] + 1))
    canary("slot-moved", lambda t: t["events"][0]["op"] == "load" and t["events"][0]["obj"].get("kind") == "project" and len(t["events"][0]["obj"]["modules"]) > 2,
           lambda e: e["obj"]["modules"].insert(1, e["obj"]["modules"].pop()))
    ctx.sample({"id": traces[1]["id"], "op": traces[1]["events"][0]["op"], "n_chunks": len(traces[1]["events"][0]["chunks"])})
    ctx.cov["fixtures"] = nfix
    fmt.validate(ctx, traces, "c04_load", cans, path, xmx="24g")
    ctx.exhaustive = False

"""C06 - edits made to a loaded object are what gets saved."""
import io
import json

from .. import fmt, gen, specdata, projection
from ..projection import L, B

EVIDENCE = dict(
    level="model_checking",
    rule="For every fixture and generated file: the attribute catalogue (project fields, common module fields, every "
         "controller, every option without exclusivity coupling, MIDI bindings, every type-specific leaf kind: curve "
         "element, waveform sample, harmonic, mapping entry, label, envelope point/flag/field, sample field and PCM data, "
         "note-map entry, vibrato/editor field, embedded effect and embedded project leaves, pattern fields and cells) is "
         "enumerated on the loaded object; for a seeded sample of leaves covering every kind (thorough: up to 80 per file) "
         "the file is loaded afresh, the attribute is set through the public API to a new in-domain value, the object is "
         "saved and loaded again. TLC checks loaded = Norm(SetPath(before, leaf, value)): the changed value shows, every "
         "other leaf is as it was. non-trivial = every edit (the new value always differs from the old one)."
         " Trace_RVFormat op alias: on a loaded MetaModule whose first user-defined controller has no label, an edit through u_<label> must save the same state as the edit through user_defined_<n> (and a state different from the base)."
         " Every third edit is made on a copy.deepcopy of the loaded object.",
    explanation="inputs: files x catalogue leaves x new values")


def set_attr(name):
    return lambda o, v: setattr(o, name, v)


def catalogue(obj, spec, rnd):
    """[(kind, projection path (1-based indices), setter(root_obj) -> None, projected new value)] for a loaded object."""
    import rv.api as api
    from rv.cmidmap import MidiMessageType, Slope
    out = []
    proj = projection.project_any(obj, spec, True)

    def add(kind, path, fn, newproj, old):
        if newproj != old:
            out.append((kind, path, fn, newproj))

    def u32new(old):
        return rnd.choice([v for v in (0, 1, 77, 65536, 2 ** 31, 2 ** 32 - 1) if L(v) != old])

    def i32new(old):
        return rnd.choice([v for v in (0, -1, 5, -2 ** 31, 2 ** 31 - 1, 1234567) if v != old])

    def module_leaves(get_mod, m, base, inproj):
        """get_mod(root) -> the live module; m: its projection; base: projection path prefix."""
        if m["kind"] != "module":
            return
        t = m["mtype"]
        st = spec[t]
        if inproj:
            for f, attr in (("x", "x"), ("y", "y")):
                v = i32new(m[f])
                add("module." + f, base + [f], (lambda r, a=attr, v=v: setattr(get_mod(r), a, v)), v, m[f])
            v = rnd.choice([k for k in range(8) if k != m["layer"]])
            add("module.layer", base + ["layer"], lambda r, v=v: setattr(get_mod(r), "layer", v), v, m["layer"])
            v = rnd.randrange(5) + 32 * rnd.randrange(2) + 256 * rnd.randrange(8) + 65536 * rnd.randrange(256) + 16777216 * rnd.randrange(4)
            add("module.visualization", base + ["vis"], lambda r, v=v: setattr(get_mod(r), "visualization", v), L(v), m["vis"])
        for f, attr in (("fin", "mod_finetune"), ("rel", "mod_relative_note"), ("mobank", "midi_out_bank"), ("moprog", "midi_out_program")):
            v = i32new(m[f])
            add("module." + f, base + [f], (lambda r, a=attr, v=v: setattr(get_mod(r), a, v)), v, m[f])
        if t != "Output":
            nm = rnd.choice(["edited", "é" * 20, "n" * 31 + "é", "", " padded ", "tab\t", "\u3000wide", "{x} }"])
            add("module.name", base + ["name"], lambda r, nm=nm: setattr(get_mod(r), "name", nm), B(nm), m["name"])
        if t != "Smooth":
            v = u32new(m["scale"])
            add("module.scale", base + ["scale"], lambda r, v=v: setattr(get_mod(r), "scale", v), L(v), m["scale"])
        col = (rnd.randrange(256), rnd.randrange(256), rnd.randrange(256))
        add("module.color", base + ["color"], lambda r, c=col: setattr(get_mod(r), "color", c), list(col), m["color"])
        fl = st["flags"] | rnd.choice([0x80, 0x100, 0x4000, 0x80 | 0x100])
        add("module.flags", base + ["flags"], lambda r, v=fl: setattr(get_mod(r), "flags", v), L(fl), m["flags"])
        v = 1 - m["midi_in_always"]
        add("module.midi_in_always", base + ["midi_in_always"], lambda r, v=v: setattr(get_mod(r), "midi_in_always", bool(v)), v, m["midi_in_always"])
        v = rnd.choice([k for k in range(17) if k != m["midi_in_channel"]])
        add("module.midi_in_channel", base + ["midi_in_channel"], lambda r, v=v: setattr(get_mod(r), "midi_in_channel", v), v, m["midi_in_channel"])
        v = rnd.choice([k for k in range(17) if k != m["moch"]])
        add("module.midi_out_channel", base + ["moch"], lambda r, v=v: setattr(get_mod(r), "midi_out_channel", v), v, m["moch"])
        nm = rnd.choice(["dev", "Ünï", "port 2", " out ", "out\t"])
        add("module.midi_out_name", base + ["moname"], lambda r, nm=nm: setattr(get_mod(r), "midi_out_name", nm), [B(nm)], m["moname"])
        # controllers
        for ci, c in enumerate(st["ctls"], 1):
            name = c["name"]
            if t == "SpectraVoice" and name.startswith("h_"):
                continue
            if t == "MultiCtl" and name == "value":
                continue            # feeding the MultiCtl changes its targets by design (C20)
            old = m["ctl"][ci - 1]
            if c["kind"] in ("range", "compact", "nooffset"):
                lo, hi = c["min"], c["max"]
            elif c["kind"] == "dep":
                u = m["ctl"][c["dep"] - 1]
                lo, hi = next(((a, b) for uu, a, b in c["ranges"] if uu == u), c["defrange"])
            elif c["kind"] == "enum":
                cands = [v for _, v in c["members"] if v != old]
                if t == "Sampler" and name == "sample_interpolation":
                    pass
                if cands:
                    v = rnd.choice(cands)
                    add("controller.enum", base + ["ctl", ci], lambda r, n=name, v=v: setattr(get_mod(r), n, v), v, old)
                continue
            else:
                v = 1 - (1 if old else 0)
                add("controller.bool", base + ["ctl", ci], lambda r, n=name, v=v: setattr(get_mod(r), n, bool(v)), v, old)
                continue
            cands = [v for v in (lo, hi, (lo + hi) // 2, lo + 1) if v != old and lo <= v <= hi]
            if t == "SpectraVoice" and name == "harmonic":
                cands = [v for v in cands if v <= 15]
            if cands:
                v = rnd.choice(cands)
                add("controller." + c["kind"], base + ["ctl", ci], lambda r, n=name, v=v: setattr(get_mod(r), n, v), v, old)
            # MIDI binding of this controller
            if ci <= len(m["cmid"]) and rnd.random() < 0.3:
                nv = [rnd.randrange(1, 9), rnd.randrange(17), rnd.randrange(6), rnd.randrange(65536)]
                def setcm(r, n=name, nv=nv):
                    mm = get_mod(r).controller_midi_maps[n]
                    mm.message_type, mm.channel, mm.slope, mm.message_parameter = MidiMessageType(nv[0]), nv[1], Slope(nv[2]), nv[3]
                add("controller.midi-binding", base + ["cmid", ci], setcm, nv, m["cmid"][ci - 1])
        # options (those without exclusivity coupling; the user-controller count is coupled to the attached set)
        for oi, o in enumerate(st["opts"], 1):
            if o["exclusive_of"] or any(o["name"] in p["exclusive_of"] for p in st["opts"]) or o["name"] == "user_defined_controllers":
                continue
            old = m["opts"][oi - 1][1]
            cands = [v for v in range(2 ** o["size"]) if v != old][:8]
            v = rnd.choice(cands)
            add("option", base + ["opts", oi, 2], lambda r, n=o["name"], v=v: setattr(get_mod(r), n, v), v, old)
        # type-specific leaves
        pl = m["payload"]
        pb = base + ["payload"]
        if pl["k"] == "wave":
            i = rnd.randrange(32)
            v = rnd.choice([x for x in (-128, -1, 0, 127, 55) if x != pl["samples"][i]])
            add("payload.waveform-sample", pb + ["samples", i + 1], lambda r, i=i, v=v: get_mod(r).drawn_waveform.samples.__setitem__(i, v), v, pl["samples"][i])
        elif pl["k"] == "arrays":
            from ..projection import ARRAY_ATTRS
            for ai, (aname, vals) in enumerate(pl["arrays"], 1):
                i = rnd.randrange(len(vals))
                mx = 255 if len(vals) in (257,) or "velocity" in aname or aname in ("harmonic_volumes", "harmonic_widths") else 32768
                if aname == "harmonic_types":
                    mx = 13
                v = rnd.choice([x for x in (0, 1, mx, mx // 2) if x != vals[i]])
                attr = ARRAY_ATTRS[t][aname]
                if t == "SpectraVoice":
                    hattr = {"harmonic_freqs": "freq_hz", "harmonic_volumes": "volume", "harmonic_widths": "width", "harmonic_types": "type"}[aname]
                    fn = lambda r, i=i, v=v, h=hattr: setattr(get_mod(r).harmonics[i], h, v if h != "type" else type(get_mod(r)).HarmonicType(v))
                else:
                    fn = lambda r, i=i, v=v, a=attr: getattr(get_mod(r), a).values.__setitem__(i, v)
                add("payload.array-element:" + aname, pb + ["arrays", ai, 2, i + 1], fn, v, vals[i])
        elif pl["k"] == "multictl":
            i = rnd.randrange(257)
            v = rnd.choice([x for x in (0, 32768, 999) if x != pl["curve"][i]])
            add("payload.curve-element", pb + ["curve", i + 1], lambda r, i=i, v=v: get_mod(r).curve.values.__setitem__(i, v), v, pl["curve"][i])
            i = rnd.randrange(16)
            v = rnd.choice([x for x in (0, 32768, 4321) if L(x) != pl["mappings"][i][0]])
            add("payload.mapping-field", pb + ["mappings", i + 1, 1], lambda r, i=i, v=v: setattr(get_mod(r).mappings.values[i], "min", v), L(v), pl["mappings"][i][0])
        elif pl["k"] == "fmx":
            import struct
            i = rnd.randrange(256)
            f = rnd.choice([0.5, -0.25, 1.0])
            nb = list(struct.pack("<f", f))
            add("payload.custom-waveform-sample", pb + ["custom_waveform", i + 1], lambda r, i=i, f=f: get_mod(r).custom_waveform.values.__setitem__(i, f), nb, pl["custom_waveform"][i])
        elif pl["k"] == "vorbis":
            nd = b"OggS-edited"
            add("payload.vorbis-data", pb + ["data"], lambda r: setattr(get_mod(r), "data", nd), list(nd), pl["data"])
        elif pl["k"] == "sampler":
            S = api.m.Sampler
            for k in range(7):
                e = pl["envs"][k]
                envget = (lambda r, k=k: [get_mod(r).volume_envelope, get_mod(r).panning_envelope, get_mod(r).pitch_envelope][k] if k < 3
                          else get_mod(r).effect_control_envelopes[k - 3])
                lo, hi = ((0, 32768) if k in (0, 3, 4, 5, 6) else (-16384, 16384))
                if e["points"] and (k < 2 or rnd.random() < 0.5):      # (volume and panning envelopes always: they have a legacy twin in the header)
                    i = rnd.randrange(len(e["points"]))
                    np_ = [e["points"][i][0], rnd.choice([y for y in (lo + 1, hi - 3, (lo + hi) // 2 + 517, (lo + hi) // 2 - 101) if y != e["points"][i][1]])]
                    add("payload.envelope-point", pb + ["envs", k + 1, "points", i + 1],
                        lambda r, g=envget, i=i, np_=np_: g(r).points.__setitem__(i, (np_[0], np_[1])), np_, e["points"][i])
                if k < 3 or rnd.random() < 0.3:      # more points than the legacy tables can hold
                    npts = rnd.choice([13, 25, 40])
                    xs = sorted(rnd.sample(range(0, 60000), npts))
                    pts = [[x, rnd.randint(lo, hi)] for x in xs]
                    add("payload.envelope-many-points", pb + ["envs", k + 1, "points"],
                        lambda r, g=envget, pts=pts: setattr(g(r), "points", [(a, b) for a, b in pts]), pts, e["points"])
                v = 1 - e["enable"]
                add("payload.envelope-flag", pb + ["envs", k + 1, "enable"], lambda r, g=envget, v=v: setattr(g(r), "enable", bool(v)), v, e["enable"])
                v = rnd.choice([x for x in (0, 50, 100) if x != e["gain_pct"]])
                add("payload.envelope-field", pb + ["envs", k + 1, "gain_pct"], lambda r, g=envget, v=v: setattr(g(r), "gain_pct", v), v, e["gain_pct"])
            for si, s in enumerate(pl["samples"]):
                if not s:
                    continue
                s = s[0]
                v = rnd.choice([x for x in (0, 11, 64) if x != s["volume"]])
                add("payload.sample-field", pb + ["samples", si + 1, 1, "volume"], lambda r, si=si, v=v: setattr(get_mod(r).samples[si], "volume", v), v, s["volume"])
                v = rnd.choice([x for x in (-128, 0, 127) if x != s["panning"]])
                add("payload.sample-field", pb + ["samples", si + 1, 1, "panning"], lambda r, si=si, v=v: setattr(get_mod(r).samples[si], "panning", v), v, s["panning"])
                v = rnd.choice([x for x in (8000, 44100, 96000) if L(x) != s["rate"]])
                add("payload.sample-field", pb + ["samples", si + 1, 1, "rate"], lambda r, si=si, v=v: setattr(get_mod(r).samples[si], "rate", v), L(v), s["rate"])
            # the PCM bytes / format / channel count of an existing sample (the frame count follows the data)
            import copy as _copy
            live = get_mod(obj) if not pl.get("is_legacy") else None
            for si, s in enumerate(pl["samples"]):
                if not s or live is None or live.samples[si] is None or rnd.random() < 0.5:
                    continue
                for what in ("data", "format", "channels"):
                    tmp = _copy.deepcopy(live.samples[si])
                    if what == "data":
                        nd = bytes(rnd.randrange(256) for _ in range(rnd.choice([0, 4, 5, 7, 8, 24, 27, len(tmp.data) + 8])))
                        if nd == tmp.data:
                            continue
                        tmp.data = nd
                        fn = lambda r, si=si, nd=nd: setattr(get_mod(r).samples[si], "data", nd)
                    elif what == "format":
                        nf = rnd.choice([f for f in S.Format if f != tmp.format])
                        tmp.format = nf
                        fn = lambda r, si=si, nf=nf: setattr(get_mod(r).samples[si], "format", nf)
                    else:
                        nc = rnd.choice([c_ for c_ in S.Channels if c_ != tmp.channels])
                        tmp.channels = nc
                        fn = lambda r, si=si, nc=nc: setattr(get_mod(r).samples[si], "channels", nc)
                    add("payload.sample-" + what, pb + ["samples", si + 1], fn, projection.sample(tmp), pl["samples"][si])
            used = [si for si, s_ in enumerate(pl["samples"]) if s_]
            free = [si for si, s_ in enumerate(pl["samples"]) if not s_]
            if len(used) >= 2:          # emptying a slot that is not the last used one leaves a gap; the others stay where they are
                si = rnd.choice(used[:-1])
                add("payload.sample-slot-emptied", pb + ["samples", si + 1], lambda r, si=si: get_mod(r).samples.__setitem__(si, None), [], pl["samples"][si])
            if free and not pl.get("is_legacy"):
                si = rnd.choice(free)
                def addsample(r, si=si):
                    s_ = S.Sample()
                    s_.data, s_.format, s_.channels, s_.rate, s_.volume = b"\x01\x02\x03\x04", S.Format.int8, S.Channels.mono, 22050, 33
                    get_mod(r).samples[si] = s_
                tmp = S.Sample()
                tmp.data, tmp.format, tmp.channels, tmp.rate, tmp.volume = b"\x01\x02\x03\x04", S.Format.int8, S.Channels.mono, 22050, 33
                add("payload.sample-slot-filled", pb + ["samples", si + 1], addsample, projection.sample(tmp), pl["samples"][si])
            i = rnd.randrange(119)
            v = rnd.choice([x for x in (0, 1, 2) if x != pl["note_samples"][i]])
            def setnm(r, i=i, v=v):
                ns = get_mod(r).note_samples
                ns[list(ns)[i]] = v
            add("payload.note-map-entry", pb + ["note_samples", i + 1], setnm, v, pl["note_samples"][i])
            v = rnd.choice([x for x in (0, 100, 8192) if x != pl["volume_fadeout"]])
            add("payload.sampler-field", pb + ["volume_fadeout"], lambda r, v=v: setattr(get_mod(r), "volume_fadeout", v), v, pl["volume_fadeout"])
            v = rnd.choice([x for x in (0, 1, 63) if x != pl["vibrato_rate"]])
            add("payload.sampler-field", pb + ["vibrato_rate"], lambda r, v=v: setattr(get_mod(r), "vibrato_rate", v), v, pl["vibrato_rate"])
            if pl["effect"]:
                em = pl["effect"][0]["module"]
                if em:
                    module_leaves(lambda r: get_mod(r).effect.module, em[0], pb + ["effect", 1, "module", 1], False)
        elif pl["k"] == "meta":
            i = rnd.randrange(96)
            nv = [rnd.randrange(1, 5), rnd.randrange(0, 6)]
            if i >= sum(pl["attached"]):      # the mapping of an exposed controller retargets its value (coupling): edit unexposed ones
                def setmp(r, i=i, nv=nv):
                    mp = get_mod(r).mappings.values[i]
                    mp.module, mp.controller = nv
                add("payload.meta-mapping", pb + ["mappings", i + 1], setmp, nv, pl["mappings"][i])
            na = sum(pl["attached"])
            if na:
                i = rnd.randrange(na)
                lb = rnd.choice(["cutoff", "Ré", "a b"])
                add("payload.meta-label", pb + ["labels", i + 1], lambda r, i=i, lb=lb: setattr(get_mod(r).user_defined[i], "label", lb), [B(lb)], pl["labels"][i])
            if na:               # the MIDI binding of a user-defined controller
                i = rnd.randrange(na)
                nv = [rnd.randrange(1, 9), rnd.randrange(17), rnd.randrange(6), rnd.randrange(65536)]
                def setud(r, i=i, nv=nv):
                    mm_ = get_mod(r).controller_midi_maps["user_defined_%d" % (i + 1)]
                    mm_.message_type, mm_.channel, mm_.slope, mm_.message_parameter = MidiMessageType(nv[0]), nv[1], Slope(nv[2]), nv[3]
                add("payload.meta-user-controller-midi-binding", pb + ["udcmid", i + 1], setud, nv, pl["udcmid"][i])
            project_leaves(lambda r: get_mod(r).project, pl["project"], pb + ["project"], nested=True)

    def project_leaves(get_p, po, base, nested=False):
        pr = po["proj"]
        fields = [("flags", "flags", "u"), ("bpm", "initial_bpm", "u"), ("tpl", "initial_tpl", "u"), ("tgrd", "time_grid", "u"),
                  ("tgd2", "time_grid2", "u"), ("gvol", "global_volume", "u"), ("mscl", "modules_scale", "u"), ("mzoo", "modules_zoom", "u"),
                  ("mxof", "modules_x_offset", "i"), ("myof", "modules_y_offset", "i"), ("lmsk", "modules_layer_mask", "u"),
                  ("curl", "modules_current_layer", "u"), ("time", "timeline_position", "i"), ("reps", "restart_position", "i"),
                  ("sels", "selected_module", "u"), ("lgen", "selected_generator", "i"), ("patn", "current_pattern", "u"),
                  ("patt", "current_track", "u"), ("patl", "current_line", "u")]
        for f, attr, ty in (fields if not nested else rnd.sample(fields, 3)):
            if ty == "u":
                v = u32new(pr[f])
                add("project." + f, base + ["proj", f], lambda r, a=attr, v=v: setattr(get_p(r), a, v), L(v), pr[f])
            else:
                v = i32new(pr[f])
                add("project." + f, base + ["proj", f], lambda r, a=attr, v=v: setattr(get_p(r), a, v), v, pr[f])
        nm = rnd.choice(["renamed", "Ünï", "", " spaced ", "\ttabbed"])
        add("project.name", base + ["proj", "name"], lambda r, nm=nm: setattr(get_p(r), "name", nm), B(nm), pr["name"])
        v = rnd.choice([k for k in range(8) if k != pr["syncmidi"]])
        add("project.sync", base + ["proj", "syncmidi"], lambda r, v=v: setattr(get_p(r), "receive_sync_midi", v), v, pr["syncmidi"])
        for mi, m in enumerate(po["modules"]):
            module_leaves(lambda r, mi=mi: get_p(r).modules[mi], m, base + ["modules", mi + 1], True)
        for pi, pt in enumerate(po["patterns"]):
            if pt["kind"] == "pattern":
                v = i32new(pt["x"])
                add("pattern.x", base + ["patterns", pi + 1, "x"], lambda r, pi=pi, v=v: setattr(get_p(r).patterns[pi], "x", v), v, pt["x"])
                nm = rnd.choice(["intro", "pät", " intro ", "x\u3000"])
                add("pattern.name", base + ["patterns", pi + 1, "name"], lambda r, pi=pi, nm=nm: setattr(get_p(r).patterns[pi], "name", nm), [B(nm)], pt["name"])
                if pt["cells"]:
                    ci = rnd.randrange(len(pt["cells"]))
                    tracks = pt["tracks"][0]
                    nc = [rnd.choice([1, 60, 128]), rnd.randrange(130), rnd.randrange(65536), rnd.randrange(65536), rnd.randrange(65536)]
                    def setcell(r, pi=pi, ci=ci, tracks=tracks, nc=nc):
                        n = get_p(r).patterns[pi].data[ci // tracks][ci % tracks]
                        n.note, n.vel, n.module, n.ctl, n.val = nc
                    add("pattern.cell", base + ["patterns", pi + 1, "cells", ci + 1], setcell, nc, pt["cells"][ci])
                    # a cell that carries nothing but a module number (and one that is cleared)
                    cj = rnd.randrange(len(pt["cells"]))
                    mo = [0, 0, rnd.choice([1, 2, 9, 65535]), 0, 0]
                    def setmod(r, pi=pi, cj=cj, tracks=tracks, mo=mo):
                        n = get_p(r).patterns[pi].data[cj // tracks][cj % tracks]
                        n.note, n.vel, n.module, n.ctl, n.val = mo
                    add("pattern.cell-module-only", base + ["patterns", pi + 1, "cells", cj + 1], setmod, mo, pt["cells"][cj])
                    ck = rnd.randrange(len(pt["cells"]))
                    def clr(r, pi=pi, ck=ck, tracks=tracks):
                        n = get_p(r).patterns[pi].data[ck // tracks][ck % tracks]
                        n.note, n.vel, n.module, n.ctl, n.val = 0, 0, 0, 0, 0
                    add("pattern.cell-cleared", base + ["patterns", pi + 1, "cells", ck + 1], clr, [0, 0, 0, 0, 0], pt["cells"][ck])
            elif pt["kind"] == "clone":
                v = i32new(pt["y"])
                add("pattern.clone-field", base + ["patterns", pi + 1, "y"], lambda r, pi=pi, v=v: setattr(get_p(r).patterns[pi], "y", v), v, pt["y"])
    if proj["kind"] == "project":
        project_leaves(lambda r: r, proj, [])
    elif proj["kind"] == "synth" and proj["module"]:
        module_leaves(lambda r: r.module, proj["module"][0], ["module", 1], False)
    return proj, out


def _has_sampler(o):
    s = json.dumps(o)
    return '"mtype": "Sampler"' in s


def run(ctx):
    import rv.api as api
    rnd = ctx.rnd
    q = ctx.quick
    path, spec = specdata.write(ctx)
    fmt.mc_format(ctx, path, spec, 5 if q else 30)
    sources = list(fmt.fixtures())
    cl = gen.classes()
    for i in range(8 if q else 120):
        sources.append(("gen%d.sunvox" % i, gen.rand_project(rnd, spec, depth=rnd.choice([0, 1, 2]), small=True).read()))
    for k in range(8 if q else 60):
        sources.append(("gen-sampler%d.sunsynth" % k, api.Synth(gen.rand_module(rnd, cl["Sampler"], spec, depth=1, in_project=False)).read()))
        sources.append(("gen-meta%d.sunsynth" % k, api.Synth(gen.rand_module(rnd, cl["MetaModule"], spec, depth=2, in_project=False)).read()))
    for k in range(3 if q else 30):     # payload-bearing types whose payload is only *used* under some controller values
        for t in ("Generator", "Analog generator", "FMX", "SpectraVoice", "WaveShaper", "MultiSynth", "MultiCtl"):
            if q and (k + len(t)) % 3:
                continue
            sources.append(("gen-%s%d.sunsynth" % (t.replace(" ", ""), k), api.Synth(gen.rand_module(rnd, cl[t], spec, depth=1, in_project=False)).read()))
    per = 16 if q else 80
    ncopy = [0]
    traces = []
    kinds = {}
    for name, data in sources:
        out, obj = fmt.load(data)
        if obj is None:
            continue
        base, leaves = catalogue(obj, spec, rnd)
        # cover every kind present, then fill with a seeded sample
        bykind = {}
        for lf in leaves:
            bykind.setdefault(lf[0], []).append(lf)
        chosen = [rnd.choice(v) for v in bykind.values()]
        rest = [lf for lf in leaves if lf not in chosen]
        rnd.shuffle(rest)
        chosen = (chosen + rest)[:max(per, len(bykind))] if not q else (chosen + rest)[:max(per, min(len(bykind), 40))]
        events = [{"op": "base", "obj": base}]
        for kind, pth, fn, newv in chosen:
            ncopy[0] += 1
            # every third edit is made a second time on a copy.deepcopy of the loaded object (a template copied per variation)
            for on_copy in ((False, True) if ncopy[0] % 3 == 0 else (False,)):
                out, o2 = fmt.load(data)
                w = kind.startswith("payload.") and "Sampler" not in json.dumps(pth) and not name.startswith("sampler")
                edited, ych = {"kind": "none"}, []
                try:
                    if on_copy:
                        import copy as _copy
                        o2 = _copy.deepcopy(o2)
                    fn(o2)
                    if w:
                        edited = projection.project_any(o2, spec, False)
                    y = o2.read()
                    if w:
                        ych = fmt.tlv.to_json_nested(y)
                    out, o3 = fmt.load(y)
                except Exception as e:
                    out, o3 = "edit-raised:" + type(e).__name__, None
                w = w and out == "ok" and not _has_sampler(edited)
                events.append({"op": "edit", "kind": kind, "path": pth, "value": newv, "outcome": out, "w": w, "edited": edited if w else {"kind": "none"},
                               "chunks": ych if w else [],
                               "after": projection.project_any(o3, spec, True) if o3 is not None else {"kind": "none"}})
                kinds[kind] = kinds.get(kind, 0) + 1
                ctx.count_case((name, json.dumps(pth), json.dumps(newv), on_copy))
        traces.append({"id": name, "events": events})
    # second public names: a loaded MetaModule's u_<label> aliases (an UNLABELLED user-defined controller sits in front of the
    # labelled ones) edit the controller that carries the label - the saved state equals the one after the edit by number
    def alias_source():
        mm = api.m.MetaModule()
        emb = api.Project()
        mm.project = emb
        emb.metamodule = mm
        a1, a2 = emb.new_module(api.m.Amplifier), emb.new_module(api.m.Amplifier)
        for j, (mod_, c) in enumerate([(a1, 0), (a2, 7), (a1, 4), (a2, 0)]):      # volume, gain, stereo_width, volume
            mm.mappings.values[j].module, mm.mappings.values[j].controller = mod_.index, c
        mm.user_defined_controllers = 4
        mm.update_user_defined_controllers()
        for j, lb in enumerate([None, "Gain", "Width", None]):
            if lb:
                mm.user_defined[j].label = lb
        return mm
    for where in ("synth", "project"):
        if where == "synth":
            data = api.Synth(alias_source()).read()
            get = lambda r: r.module
        else:
            pj = api.Project()
            pj.attach_module(alias_source())
            data = pj.read()
            get = lambda r: r.modules[1]
        events = [{"op": "base", "obj": projection.project_any(fmt.load(data)[1], spec, True)}]
        for num, alias, v in ((2, "u_gain", 3000), (3, "u_width", 77)):
            def edited(fn):
                try:
                    o2 = fmt.load(data)[1]
                    fn(get(o2))
                    return fmt.load(o2.read())
                except Exception as e:
                    return "edit-raised:" + type(e).__name__, None
            _, named = edited(lambda m_: setattr(m_, "user_defined_%d" % num, v))
            out, after = edited(lambda m_: setattr(m_, alias, v))
            events.append({"op": "alias", "kind": alias, "outcome": out,
                           "named": projection.project_any(named, spec, True) if named is not None else {"kind": "none"},
                           "after": projection.project_any(after, spec, True) if after is not None else {"kind": "none"}})
            kinds["alias"] = kinds.get("alias", 0) + 1
            ctx.count_case(("alias", where, alias))
        traces.append({"id": "meta-alias." + where, "events": events})
    ctx.cov["leaf_kinds_edited"] = dict(sorted(kinds.items()))
    cans = []
    def canary(name, mut):
        src = next(t for t in traces if len(t["events"]) > 3 and t["events"][0]["obj"]["kind"] == "synth")
        c = json.loads(json.dumps(src))
        c["id"] = "canary-" + name
        c["events"] = c["events"][:2]
        mut(c["events"])
        traces.append(c)
        cans.append(c["id"])
    canary("edit-lost", lambda ev: ev[1].__setitem__("after", ev[0]["obj"]))
    canary("other-value-changed", lambda ev: ev[1]["after"]["module"][0].__setitem__("rel", ev[1]["after"]["module"][0]["rel"] + 1))
    t0 = traces[0]
    ctx.sample({"file": t0["id"], "edits": [{k: e[k] for k in ("kind", "path", "value", "outcome")} for e in t0["events"][1:6]]})
    fmt.validate(ctx, traces, "c06_edits", cans, path, xmx="24g",
                 where=lambda tr, m: "%s leaf=%s" % (tr["id"], json.dumps(tr["events"][m["l"] - 1].get("path"))))
    ctx.exhaustive = False

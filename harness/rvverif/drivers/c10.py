"""C10 - stored controller encodings are exact bijections on each controller's range."""
import json

from .. import ctl, specdata, tlc, trace
from . import c09

EVIDENCE = dict(
    level="model_checking",
    rule="MC_RVCtl checks Bijective/Injective/non-negative over every value of every controller class of the YAML "
         "(all unit variants). The real get_raw / set_raw / pattern_value are called for EVERY value of EVERY "
         "controller of every type under every unit (complete enumeration, 16 processes), every enum member and both "
         "booleans; the observed tables are shipped to TLC in lossless affine run-length form (tables that are "
         "literally identical are shipped once with the list of controllers that produced them) and Trace_RVCtl "
         "checks them against ToRaw/FromRaw and the pattern envelope of each controller's YAML range. The same tables are "
         "observed through a MetaModule's user-defined controller mapped onto every controller with a negative minimum or a "
         "unit-dependent range (and a quarter of the others), freshly built and after a file round trip, and in files: the "
         "number found in the CVAL chunk of a written project / synth and the value loaded back, for every no-offset and "
         "negative-minimum controller (an eighth of the others). "
         "evaluations = (controller, unit, value) triples executed; non-trivial = value differs from the minimum."
         " Vias meta-padded-slot (file with 27 mappings, two padded slots pointed in place at different targets) and meta-reattached (count lowered and raised again) for negative-minimum and unit-dependent controllers."
         " Via meta-built saves the MetaModule between set_raw and the read-back for one value in 97.",
    explanation="finite domain enumerated completely")


def tlaps_supplement(ctx):
    """Unbounded arithmetic facts about the offset encoding, proved by TLAPS (supplementary; recorded only)."""
    import os
    import re
    import shutil
    import subprocess
    import time
    src = os.path.join(tlc.SPEC_DIR, "tlaps", "RVCtlProofs.tla")
    dst = os.path.join(ctx.work, "RVCtlProofs.tla")
    t0 = time.time()
    try:
        shutil.copy(src, dst)
        p = subprocess.run(["tlapm", "RVCtlProofs.tla"], cwd=ctx.work, stdout=subprocess.PIPE, stderr=subprocess.STDOUT, text=True, timeout=300)
        m = re.search(r"All (\d+) obligations? proved", p.stdout)
        res = {"proved_all": bool(m), "obligations": int(m.group(1)) if m else 0, "note": "" if m else p.stdout[-300:]}
    except Exception as e:
        res = {"proved_all": False, "obligations": 0, "note": "not run: %r" % (e,)}
    res["wall_s"] = round(time.time() - t0, 1)
    res["claim"] = "supplementary: Bijection, Inverse, NonNegative, Injective, Monotone of the offset encoding over all integers"
    ctx.cov["tlaps"] = res


def run(ctx):
    path, spec = specdata.write(ctx)
    tlaps_supplement(ctx)
    c09.mc(ctx, path, ("Encoding", "StrictInDomain"))
    events = ctl.enumerate_tables(spec, True, ctx.seed)
    groups, pats, members = {}, {}, []
    total = 0
    for e in events:
        if e["op"] == "filevalues":
            members.append(e)
            total += e["hi"] - e["lo"] + 1
            continue
        if e["op"] == "members":
            members.append(e)
            total += len(e["vals"])
            continue
        n = sum(r[2] for r in e["raws"])
        total += n
        k = json.dumps([e["lo"], e["hi"], e["complete"], e["raws"], e["back"], e["patends"]])
        g = groups.setdefault(k, dict(op="raws", ctls=[], lo=e["lo"], hi=e["hi"], complete=e["complete"],
                                      raws=e["raws"], back=e["back"], patends=e["patends"]))
        g["ctls"].append([e["t"], e["i"], e["u"]])
        if e["pat"] is not None:
            pk = hash(tuple(e["pat"]))
            pg = pats.setdefault((pk, len(e["pat"])), dict(op="pattern", ctls=[], arr=e["pat"]))
            if pg["arr"] != e["pat"]:      # hash collision: keep separately
                pg = pats.setdefault((pk, len(e["pat"]), len(pats)), dict(op="pattern", ctls=[], arr=e["pat"]))
            pg["ctls"].append([e["t"], e["i"], e["u"]])
    ctx.cov["evaluations"] += total
    nontrivial = total - len([e for e in events if e["op"] == "raws"])
    ctx.cov["distinct_nontrivial"] += nontrivial      # every (controller, unit, value) triple is distinct by construction
    evs = list(groups.values()) + list(pats.values()) + members
    traces = [{"id": "g%d" % i, "events": [e]} for i, e in enumerate(evs)]
    cans = []
    def canary(name, e0, mut):
        e = json.loads(json.dumps(e0))
        mut(e)
        traces.append({"id": "canary-" + name, "events": [e]})
        cans.append("canary-" + name)
    neg = next(g for g in groups.values() if g["lo"] < 0)
    canary("offset", neg, lambda e: e["raws"][0].__setitem__(1, e["raws"][0][1] + 1))
    canary("back", neg, lambda e: e["back"][0].__setitem__(1, e["back"][0][1] - 1))
    canary("hole", neg, lambda e: e["raws"][0].__setitem__(2, e["raws"][0][2] - 1))
    big = next(g for g in pats.values() if len(g["arr"]) > 1000 and g["arr"][-1] == 32768)
    canary("pattern-max", big, lambda e: e["arr"].__setitem__(len(e["arr"]) - 1, 32767))
    canary("pattern-nonmonotone", big, lambda e: e["arr"].__setitem__(500, e["arr"][499] - 1))
    canary("member", next(e for e in members if e["op"] == "members"), lambda e: e["vals"][0].__setitem__(1, e["vals"][0][1] + 1))
    ctx.sample({k: (v if k != "ctls" else v[:4]) for k, v in neg.items()})
    ctx.sample({"op": "pattern", "ctls": big["ctls"][:3], "arr_head": big["arr"][:8], "arr_len": len(big["arr"])})

    def where(tr, m):
        e = tr["events"][0]
        return "%s %s" % (e["op"], json.dumps(m.get("exp"))[:200])
    trace.validate(ctx, "Trace_RVCtl", traces, "c10_tables", canaries=cans, env={"RV_SPECDATA": path}, where=where)
    ctx.cov["traces_validated_against_impl"] = len(events)
    ctx.cov["table_groups"] = len(groups)
    ctx.cov["pattern_groups"] = len(pats)
    ctx.exhaustive = True

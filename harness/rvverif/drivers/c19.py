"""C19 - bulk pattern edits are all-or-nothing and notes stay owned by their pattern."""
import itertools
import json

from .. import tlc, trace

EVIDENCE = dict(
    level="model_checking",
    rule="MC_RVBulk explores Begin/Cell/Fail/Commit over all contents of a small pattern with the action property "
         "AllOrNothing (contents change only by a commit installing the working copy) and OwnedWhenIdle. Real Pattern "
         "objects (shapes up to 3x3 exhaustively for failure positions, random beyond; attached and unattached) are "
         "edited through set_via_fn and set_via_gen with a failure injected at every cell position / every yield index, "
         "partial and repeated yields, generators that edit the working array's own notes or put notes into it without yielding (also yielding nothing at all), sixteen kinds of exceptions, sequences of 1-4 successive edits, and a first edit on a newly constructed pattern nothing has looked at yet; the supplied callable logs the contents it "
         "observes at each invocation; Trace_RVBulk validates one event per model action. non-trivial = the edit "
         "supplies a note different from the cell's previous content or fails."
         " Generator callables also return a list, an iterator, a tuple or a map object."
         " A quarter of the histories edit a copy.copy of the pattern while the original stands by (op bystander: contents and ownership of the original unchanged).",
    explanation="fault_sequences: a failure at each cell/yield index; histories: successive edits on the same pattern")


class Boom(Exception):
    pass


class BoomBase(BaseException):
    pass


class NonNote:
    """Marker 'exception kind': at the failing position the callable does not raise - it hands back something that is no Note."""
    values = [None, (60, 100), b"\x01\x02\x03\x04\x05\x06\x07\x08", 0]


EXC_KINDS = [Boom, StopIteration, KeyError, BoomBase, GeneratorExit, RuntimeError, IndexError, ValueError, TypeError, AttributeError,
             ZeroDivisionError, OSError, AssertionError, LookupError, MemoryError, KeyboardInterrupt]


def cell_of(n):
    try:
        return [int(n.note), int(n.vel), int(n.module), int(n.ctl), int(n.val)]
    except Exception:           # something that is no Note sits in the grid
        return [-1, -1, -1, -1, -1]


def contents(pat):
    return [cell_of(n) for line in pat.data for n in line]


def run_history(api, rnd, tid, lines, tracks, attached, edits, prefill, fresh=False, blind_all=False, twin=False):
    """edits: list of dicts {setter, notes: [(k, cell)] in call/yield order, fail_at: index into notes or None}
    fresh: the pattern is not looked at (no .data / .raw_data access, no prefill) before the first edit has ended and the
    first edit's callable is blind: the contents before are those of a newly constructed pattern - all cells empty."""
    pat = api.Pattern(lines=lines, tracks=tracks)
    proj = None
    if attached:
        proj = api.Project()
        proj.new_module(api.m.Generator)
        proj.attach_pattern(pat)
    for k, c in enumerate(prefill):
        n = pat.data[k // tracks][k % tracks]
        n.note, n.vel, n.module, n.ctl, n.val = c
    src = None
    if twin and not fresh:       # the edits are made on a shallow copy (copy.copy) of the pattern; the original stands by
        import copy as _copy
        src, pat = pat, _copy.copy(pat)
        src_before = contents(src)
    tr = {"id": tid, "cells": contents(pat) if not fresh else [[0, 0, 0, 0, 0] for _ in range(lines * tracks)], "events": []}
    ev = tr["events"]

    def bystander():
        if src is not None:
            ev.append({"op": "bystander", "before": src_before, "after": contents(src),
                       "owned": [getattr(n, "pattern", None) is src for line in src.data for n in line]})
    for ei, ed in enumerate(edits):
        blind = (fresh and ei == 0) or blind_all       # (blind_all: large patterns - the callable does not log what it sees)

        def seen(p):
            return {"blind": True, "seen": []} if blind else {"blind": False, "seen": contents(p)}
        ev.append({"op": "begin"})
        calls = ed["notes"]
        fail_at = ed["fail_at"]
        exc = ed.get("exc", Boom)
        if exc is NonNote and fail_at is not None and fail_at >= len(calls):
            exc = Boom          # (a failure behind the last supplied note can only be an exception)
        reuse = ed.get("reuse", ())          # positions (indices into calls) where the callable hands back an EXISTING note object
        if src is not None:
            reuse = ()                       # (a shallow copy shares its note objects with the original until its first edit: not handed back)
        inplace = ed.get("inplace", ())      # positions where the generator edits the note found in the WORKING array and yields it
        direct = ed.get("direct", ())        # positions where the generator puts the note into the working array itself, yielding nothing

        def mk(c):
            return api.Note(note=c[0], vel=c[1], module=c[2], ctl=c[3], val=c[4])
        state = {"i": 0}
        try:
            if ed["setter"] == "fn":
                def fn(p, line, track):
                    i = state["i"]
                    state["i"] += 1
                    k, c = calls[i]
                    if fail_at == i and exc is NonNote:
                        return NonNote.values[i % len(NonNote.values)]
                    if fail_at == i:
                        raise exc()
                    if i in reuse and not blind:          # leave the cell alone by returning the note that is already there
                        old = p.data[line][track]
                        ev.append(dict({"op": "cell", "k": k, "note": cell_of(old)}, **seen(p)))
                        return old
                    ev.append(dict({"op": "cell", "k": k, "note": c}, **seen(p)))
                    return mk(c)
                r = pat.set_via_fn(fn)
            else:
                def gen(p, new):
                    for i, (k, c) in enumerate(calls):
                        if fail_at == i and exc is NonNote:
                            yield (k - 1) // tracks, (k - 1) % tracks, NonNote.values[i % len(NonNote.values)]
                            return          # (nothing later may put a proper note over it)
                        if fail_at == i:
                            raise exc()
                        if i in reuse and not blind:      # move an existing note object to cell k
                            src = p.data[0][0]
                            ev.append(dict({"op": "cell", "k": k, "note": cell_of(src)}, **seen(p)))
                            yield (k - 1) // tracks, (k - 1) % tracks, src
                            continue
                        if i in direct:
                            ev.append(dict({"op": "cell", "k": k, "note": c}, **seen(p)))
                            new[(k - 1) // tracks][(k - 1) % tracks] = mk(c)
                            continue
                        n_ = new[(k - 1) // tracks][(k - 1) % tracks]
                        # "possible, but discouraged": change the working array's own note object (not when an earlier edit of
                        # this history put one note object into several cells: editing it would change them all)
                        if i in inplace and sum(1 for ln_ in new for x_ in ln_ if x_ is n_) == 1:
                            n_.note, n_.vel, n_.module, n_.ctl, n_.val = api.NOTECMD(c[0]), c[1], c[2], c[3], c[4]
                            ev.append(dict({"op": "cell", "k": k, "note": c}, **seen(p)))
                            yield (k - 1) // tracks, (k - 1) % tracks, n_
                            continue
                        ev.append(dict({"op": "cell", "k": k, "note": c}, **seen(p)))
                        yield (k - 1) // tracks, (k - 1) % tracks, mk(c)
                    if fail_at == len(calls) and exc is not NonNote:
                        raise exc()
                form = ed.get("form", "generator")
                if form == "generator":
                    r = pat.set_via_gen(gen)
                else:
                    def other(p, new, form=form):
                        items = list(gen(p, new))
                        return {"list": items, "iter": iter(items), "tuple": tuple(items), "map": map(lambda x: x, items)}[form]
                    r = pat.set_via_gen(other)
        except BaseException as e:
            # the callable's failure propagates (Python may re-wrap it, e.g. StopIteration inside a generator -> RuntimeError)
            ev.append({"op": "fail", "outcome": "callable-exception" if fail_at is not None else "unexpected:" + type(e).__name__,
                       "post": contents(pat)})
            bystander()
            continue
        if fail_at is not None:       # the callable raised but the edit "completed": the failure was swallowed
            ev.append({"op": "fail", "outcome": "swallowed:" + exc.__name__, "post": contents(pat)})
            continue
        owned = [getattr(n, "pattern", None) is pat for line in pat.data for n in line]      # (something that is no Note owns nothing)
        acc = []
        for line in pat.data:
            for n in line:
                try:
                    if attached:
                        good = n.project is proj
                        mm = n.mod
                        idx = n.module - 1
                        good = good and (mm is (proj.modules[idx] if 0 <= idx < len(proj.modules) else None))
                    else:
                        good = n.project is None
                except Exception:
                    good = False
                acc.append(bool(good))
        ev.append({"op": "commit", "outcome": "ok", "returns_self": r is pat, "post": contents(pat), "owned": owned, "accessors": acc})
        bystander()
    return tr


def run(ctx):
    import rv.api as api
    rnd = ctx.rnd
    q = ctx.quick
    cfg = ("CONSTANTS NCells = %d Notes = {0, 1, 2}\nSPECIFICATION Spec\nPROPERTY AllOrNothing\nINVARIANT OwnedWhenIdle\n"
           "INVARIANT ScratchSane\nCHECK_DEADLOCK FALSE\n" % (3 if q else 4))
    res = tlc.run("MC_RVBulk", cfg, ctx.work, workers=16, timeout=1500, name="mc_bulk")
    if res.invariant_violated or res.property_violated:
        ctx.violation("model:" + str(res.invariant_violated or res.property_violated), "MC_RVBulk", res.counterexample[:2000])
    ctx.add_mc("mc_bulk", res, "all contents over 3 note values; AllOrNothing as action property")
    cmds = [int(c) for c in api.NOTECMD]

    def rcell():
        r = rnd.random()
        if r < 0.2:
            return [0, 0, rnd.choice([1, 2, 7]), 0, 0]           # module-only cell
        if r < 0.3:
            return [0, 0, 0, 0, 0]
        return [rnd.choice(cmds), rnd.randrange(130), rnd.choice([0, 1, 2, 9]), rnd.randrange(65536), rnd.randrange(65536)]

    nforms = [0]

    def edit(setter, ncells, fail_at, partial):
        if setter == "fn":
            notes = [(k, rcell()) for k in range(1, ncells + 1)]
        else:
            ks = list(range(1, ncells + 1))
            if partial:
                ks = rnd.sample(ks, rnd.randrange(0, ncells + 1)) + ([rnd.randrange(1, ncells + 1)] if rnd.random() < 0.5 else [])
            else:
                rnd.shuffle(ks)
            notes = [(k, rcell()) for k in ks]
        d = {"setter": setter, "notes": notes, "fail_at": fail_at, "exc": rnd.choice(EXC_KINDS + [NonNote, NonNote])}
        if d["exc"] is NonNote and fail_at is not None and fail_at >= len(notes):
            d["exc"] = Boom
        if rnd.random() < 0.35:
            d["reuse"] = set(rnd.sample(range(len(notes)), rnd.randrange(0, len(notes) + 1))) if notes else set()
        elif setter == "gen" and rnd.random() < 0.5:
            d["inplace"] = set(rnd.sample(range(len(notes)), rnd.randrange(0, len(notes) + 1))) if notes else set()
        elif setter == "gen" and rnd.random() < 0.6:      # direct edits of the working array; one time in three nothing is yielded at all
            d["direct"] = set(range(len(notes))) if rnd.random() < 0.34 else set(rnd.sample(range(len(notes)), rnd.randrange(0, len(notes) + 1))) if notes else set()
        # how a "generator" callable hands its cells over: a generator, or any other iterable (list, iterator, tuple, map object)
        nforms[0] += 1
        d["form"] = ("generator", "list", "generator", "iter", "tuple", "generator", "map")[nforms[0] % 7]
        if d.get("direct") or d.get("inplace"):
            d["form"] = "generator"       # (edits of the working array interleave with the yields only in a real generator)
        return d
    traces = []
    shapes = [(1, 1), (1, 2), (2, 1), (2, 2), (3, 2), (2, 3), (3, 3)]
    # failure at every position, each shape, each setter, attached and not; followed by a partial generator edit
    for (ln, tk), setter, attached in itertools.product(shapes, ("fn", "gen"), (False, True)):
        nc = ln * tk
        for fail_at in [None] + list(range(nc + (1 if setter == "gen" else 0))):
            e1 = edit(setter, nc, fail_at, partial=False)
            if fail_at is not None and fail_at > len(e1["notes"]):
                continue
            follow = [edit("gen", nc, None, partial=True)]
            if rnd.random() < 0.5:
                follow.append(edit("fn", nc, None, False))
            traces.append(run_history(api, rnd, "s%d" % len(traces), ln, tk, attached, [e1] + follow, [rcell() for _ in range(nc)],
                                      twin=len(traces) % 4 == 1))
    # a bulk edit as the very first thing that happens to a newly constructed pattern (nothing has looked at it yet)
    for (ln, tk), setter, attached in itertools.product(shapes[1:], ("fn", "gen"), (False, True)):
        nc = ln * tk
        for fail_at in [None] + list(range(nc + (1 if setter == "gen" else 0))):
            e1 = edit(setter, nc, fail_at, partial=False)
            if fail_at is not None and fail_at > len(e1["notes"]):
                continue
            traces.append(run_history(api, rnd, "f%d" % len(traces), ln, tk, attached, [e1, edit("gen", nc, None, partial=True)], [], fresh=True))
    # scale: patterns of more than 256 lines / 16+ tracks (one edit each: complete, failing late, sparse generator)
    for (ln, tk) in ((257, 2), (300, 5), (40, 32)):
        nc = ln * tk
        for setter, fa in (("gen", None), ("fn", None), ("gen", nc - 1), ("fn", nc - 3)):
            e1 = edit(setter, nc, fa, partial=(setter == "gen" and fa is None))
            if fa is not None:
                e1["fail_at"] = min(fa, len(e1["notes"]) - 1)
            e1.pop("reuse", None)
            traces.append(run_history(api, rnd, "big%d" % len(traces), ln, tk, setter == "gen", [e1], [rcell() for _ in range(nc)], blind_all=True))
    # random histories of 1-4 edits on larger shapes
    for _ in range(150 if q else 2500):
        ln, tk = rnd.randrange(1, 7), rnd.randrange(1, 5)
        nc = ln * tk
        eds = []
        for _e in range(rnd.randrange(1, 5)):
            setter = rnd.choice(["fn", "gen"])
            fa = rnd.randrange(nc) if rnd.random() < 0.4 else None
            ed = edit(setter, nc, None, partial=rnd.random() < 0.7)
            if fa is not None:
                ed["fail_at"] = min(fa, len(ed["notes"]) - (1 if setter == "fn" else 0))
            eds.append(ed)
        traces.append(run_history(api, rnd, "r%d" % len(traces), ln, tk, rnd.random() < 0.5, eds, [rcell() for _ in range(nc)], twin=len(traces) % 5 == 2))
    for tr in traces:
        pre = tr["cells"]
        for e in tr["events"]:
            if e["op"] in ("commit", "fail"):
                ctx.count_case((tr["id"], json.dumps(e["post"]), e["op"]), nontrivial=e["op"] == "fail" or e["post"] != pre)
                pre = e["post"]
    cans = []
    def canary(name, pred, mut):
        src = next(t for t in traces if pred(t))
        c = json.loads(json.dumps(src))
        c["id"] = "canary-" + name
        mut(c)
        traces.append(c)
        cans.append(c["id"])
    canary("partial-failure", lambda t: any(e["op"] == "fail" for e in t["events"]) and any(t["cells"][0]),
           lambda c: next(e for e in c["events"] if e["op"] == "fail")["post"][0].__setitem__(1, (c["cells"][0][1] + 1) % 130))
    canary("unowned", lambda t: any(e["op"] == "commit" for e in t["events"]),
           lambda c: next(e for e in c["events"] if e["op"] == "commit")["owned"].__setitem__(0, False))
    canary("visible-early", lambda t: sum(1 for e in t["events"] if e["op"] == "cell") >= 2,
           lambda c: [e for e in c["events"] if e["op"] == "cell"][1]["seen"][0].__setitem__(1, ([e for e in c["events"] if e["op"] == "cell"][1]["seen"][0][1] + 1) % 130))
    canary("lost-cell", lambda t: any(e["op"] == "commit" for e in t["events"]) and len(t["cells"]) > 1,
           lambda c: next(e for e in c["events"] if e["op"] == "commit")["post"][-1].__setitem__(2, next(e for e in c["events"] if e["op"] == "commit")["post"][-1][2] + 1))
    ctx.sample({"trace": traces[3]["id"], "cells": traces[3]["cells"], "events": traces[3]["events"][:4]})
    trace.validate(ctx, "Trace_RVBulk", traces, "c19_bulk", canaries=cans,
                   where=lambda tr, m: "%s event %s %s" % (tr["id"], m.get("l"), m.get("op")))
    ctx.exhaustive = False

"""C09 - controller assignment enforces declared domains; defaults match the spec."""
import json

from .. import ctl, specdata, tlc, trace

EVIDENCE = dict(
    level="model_checking",
    rule="MC_RVCtl explores assignment of boundary/interior/invalid values to every specified controller of every "
         "type under every unit in strict and lenient mode (invariants: strict fixed ranges never leave their domain, "
         "rejected assignments change nothing, stored encoding bijective over every value). The same probes are "
         "executed on real module instances by attribute assignment and by constructor keyword, plus a fresh-default "
         "event per controller, and Trace_RVCtl judges outcome and read-back. Every zero-based ranged controller is also "
         "assigned through a MetaModule user-defined controller mapped onto it, under its own name and under its label alias. Further probes: after loads and MetaModules that mirror negative-minimum controllers "
         "(rejection at min-1/max+1, acceptance at min/max, fresh defaults again), a held out-of-range value assigned again, modules named with "
         "braces, lenient set_raw, attribute names as enum names. An event is non-trivial when the value "
         "differs from the default or the assignment is refused."
         " Alias probes have an unlabelled user-defined controller in front and read back under the controller's own name; a child interpreter constructs every type FIRST with keyword values and reports the defaults of the next plain object (fresh events).",
    explanation="complete over 43 types x 502 controllers x {min-1,min,min+1,mid,max-1,max,max+1 | every enum member by "
                "value and by name, invalid value, invalid name | booleans} x {strict, lenient} x {attribute, keyword}")


def mc(ctx, path, invs=("StrictInDomain", "EnumInDomain")):
    cfg = "INIT Init\nNEXT Next\nCHECK_DEADLOCK FALSE\n" + "".join("INVARIANT %s\n" % i for i in invs)
    res = tlc.run("MC_RVCtl", cfg, ctx.work, env={"RV_SPECDATA": path}, workers=16, timeout=1500, name="mc_ctl")
    if res.invariant_violated:
        ctx.violation("model:" + res.invariant_violated, "MC_RVCtl", res.counterexample[:2000])
    ctx.add_mc("mc_ctl", res, "all types x controllers x units x {strict,lenient}; Encoding over every value of every range")


def run(ctx):
    path, spec = specdata.write(ctx)
    mc(ctx, path)
    events = ctl.set_events(spec) + ctl.history_probe_events(spec) + ctl.meta_events(spec) + ctl.attached_repeat_events(spec) + ctl.named_and_raw_events(spec) + ctl.first_use_events(spec)
    for e in events:
        ctx.count_case(json.dumps(e, sort_keys=True), nontrivial=e["op"] == "set" and (e["outcome"] != "ok" or e["got"] != e["old"]))
    # one trace per module type
    bytype = {}
    for e in events:
        bytype.setdefault(e["t"], []).append(e)
    traces = [{"id": t, "events": ev} for t, ev in sorted(bytype.items())]
    # canaries
    cans = []
    def canary(name, t, pred, mut):
        c = json.loads(json.dumps(next(tr for tr in traces if tr["id"] == t)))
        c["id"] = t + "#canary-" + name
        e = next(e for e in c["events"] if pred(e))
        mut(e)
        traces.append(c)
        cans.append(c["id"])
    canary("default", "Amplifier", lambda e: e["op"] == "fresh", lambda e: e.__setitem__("got", e["got"] + 1))
    canary("accepts-out-of-range", "Filter", lambda e: e["op"] == "set" and e["strict"] and e["outcome"] == "ControllerValueError",
           lambda e: (e.__setitem__("outcome", "ok"), e.__setitem__("got", e["arg"]["v"])))
    canary("readback", "LFO", lambda e: e["op"] == "set" and e["outcome"] == "ok" and e["how"] == "attr", lambda e: e.__setitem__("got", e["got"] + 1))
    canary("kept-after-reject", "Echo", lambda e: e["op"] == "set" and e["strict"] and e["outcome"] == "ControllerValueError" and e["how"] == "attr",
           lambda e: e.__setitem__("got", e["arg"]["v"]))
    ctx.sample([e for e in bytype["Amplifier"] if e["op"] == "set"][:3])
    ctx.sample([e for e in bytype["LFO"] if e["op"] == "set" and e["arg"]["k"] == "name"][:2])

    def where(tr, m):
        e = tr["events"][m["l"] - 1]
        cname = spec[e["t"]]["ctls"][e["i"] - 1]["name"] if e["t"] in spec else "?"
        return "%s.%s %s" % (spec[e["t"]]["cls"], cname, json.dumps({k: e.get(k) for k in ("how", "strict", "u", "arg")}))
    trace.validate(ctx, "Trace_RVCtl", traces, "c09_set", canaries=cans, env={"RV_SPECDATA": path}, where=where)
    ctx.exhaustive = True
    ctx.cov["controllers"] = sum(len(t["ctls"]) for t in spec.values())

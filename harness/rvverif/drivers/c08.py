"""C08 - the connection graph and slot order persist across save/load."""
import json
import zlib

from .. import links, trace

EVIDENCE = dict(
    level="model_checking",
    rule="TLC checks the save/load post-conditions (canonical / always / never / superset SLnK variants) as "
         "invariants on every reachable state of MC_RVLinks and emits the reachable states; a real Project is "
         "put into each emitted state, saved, its SLnK chunks rewritten per variant through the TLV layer, "
         "loaded with the real reader, and the loaded tables are validated by Trace_RVLinks (Consistent, equal "
         "up to trailing freed slots / same graph and in-link order for files without slot data). Random "
         "histories interleave connect requests with save/load and continue on the reloaded project. "
         "Added histories: 262 modules, 1100 cycles on one destination, hubs of 20-260 destinations (MultiCtl, MetaModule, Sampler "
         "sources), the Output as a source, trailing empty positions; MC_RVSystem (focus gaps) explored exhaustively with its "
         "transitions replayed by state injection. non-trivial = the saved state has at least one link."
         " Every third save+load runs with the library's loggers at DEBUG.",
    explanation="states/transitions are those of the exhaustive bounded model; traces are real save/load round trips")


def run(ctx):
    rnd = ctx.rnd
    q = ctx.quick
    api = links._rv()[0]
    n, maxlen = 3, 2
    p = links.make_project(n, classes=[api.m.Amplifier, api.m.Generator])
    traces = []

    seen = set()
    sk = 8 if q else 1

    def on_state(st):
        key = json.dumps(st, sort_keys=True)
        if key in seen:
            return
        seen.add(key)
        if (zlib.crc32(key.encode()) + ctx.seed) % sk:
            return
        links.set_tables(p, st)
        for variant in ("canonical", "always", "never", "superset"):
            sub = sorted(rnd.sample(range(n), rnd.randrange(n + 1))) if variant == "superset" else []
            out, qp = links.save_load(p, variant, sub)
            post = links.get_tables(qp) if qp is not None and len(qp.modules) == n else st
            if qp is not None and len(qp.modules) != n:
                out = "module-count"
            tid = "s%d.%s" % (len(traces), variant)
            traces.append({"id": tid, "n": n, "events": [
                {"op": "inject", "post": st},
                {"op": "saveload", "variant": variant, "sub": sub, "outcome": out, "post": post}]})
            ctx.count_case((json.dumps(st, sort_keys=True), variant, tuple(sub)), nontrivial=any(st["inl"]))
    invs = links.INVS_QUICK if q else links.INVS_FULL
    links.graph_replay(ctx, n, maxlen, "pairs", 0, invs + ["EmitState"], "C08", on_state=on_state,
                       statek=1, coverage=not q)
    if not traces:
        raise links.MachineryError("no state emitted")
    ctx.sample({"mode": "A-state", "trace": traces[len(traces) // 2]})
    # canaries: a loaded table with one slot changed must be rejected
    canaries = []
    for tr in [t for t in traces if any(t["events"][1]["post"]["ins"][m] for m in range(n))][:4]:
        c = json.loads(json.dumps(tr))
        c["id"] = tr["id"] + "#canary"
        row = [r for r in c["events"][1]["post"]["ins"] if r][0]
        row[0] += 1
        traces.append(c)
        canaries.append(c["id"])
    trace.validate(ctx, "Trace_RVLinks", traces, "c08_states", canaries=canaries)
    # ---- composed workspace model: link tables through gaps, attaches and save+load (no state injection)
    from .. import system
    system.simulate_and_replay(ctx, 100 if q else 2500, 14 if q else 22)
    # ... and exhaustively for small constants, concentrated on empty positions: attach / attach at the end / empty position /
    # connect / save+load - link entries name POSITIONS, also behind gaps (transitions replayed with state injection)
    system.graph_replay(ctx, q, emitk=8 if q else 1, focus="gaps")
    # ---- mode B: histories with interleaved save/load
    classes = links.simple_classes()
    hist = []
    nt, ln = (120, 50) if q else (1200, 100)
    for t in range(nt):
        nn = rnd.randrange(2, 11)
        hist.append(links.random_history(ctx, rnd, "h%d" % t, nn, rnd.randrange(ln // 2, ln + 1), classes,
                                         p_save=0.2, variants=("canonical", "always", "never", "superset"),
                                         trailing=rnd.choice([0, 0, 1, 3])))
    # scale: a project of more than 256 modules (link targets and slot numbers above 255)
    hist.append(links.random_history(ctx, rnd, "h-large", 262, 40 if q else 120, classes, p_save=0.1, variants=("canonical", "never", "always")))
    hist.append(links.long_history(ctx, rnd, "h-long", 1100 if q else 3000))
    import rv.api as api_
    for k, hc in enumerate([api_.m.MultiCtl, api_.m.Amplifier, api_.m.MetaModule, api_.m.Sampler]):     # one source with 20 destinations
        hist.append(links.hub_history(ctx, rnd, "h-hub%d" % k, hc, fan=20 if k else 22))
    hist.append(links.hub_history(ctx, rnd, "h-hub-260", api_.m.Amplifier, fan=260))       # out slots 255, 256 ...
    hist.append(links.output_source_history(ctx, rnd, "h-output-source"))        # scale in time: a thousand freed slots, then save + load
    for tr in hist:
        for i, e in enumerate(tr["events"]):
            if e["op"] == "saveload":
                ctx.count_case((tr["id"], i, repr(e)), nontrivial=any(e["post"]["inl"]))
    can2 = []
    for tr in hist[:4]:
        c = links.corrupt(tr, rnd)
        if c:
            hist.append(c)
            can2.append(c["id"])
    ctx.sample({"mode": "B", "trace": hist[0]["id"], "n": hist[0]["n"],
                "saveload_events": [e for e in hist[0]["events"] if e["op"] == "saveload"][:2]})
    trace.validate(ctx, "Trace_RVLinks", hist, "c08_hist", canaries=can2)
    ctx.exhaustive = False

"""C16 - Sampler instruments keep samples, envelopes and maps bit-exact."""
import json
import struct

from .. import fmt, gen, specdata, tlv

EVIDENCE = dict(
    level="model_checking",
    rule="Programmatically built samplers: random subsets of the 128 slots (incl. slot 127 and gaps), arbitrary byte strings "
         "as sample data, all 3 x 2 format x channel combinations, envelopes of 0..40 points over the 16-bit widths, full "
         "119-entry note maps, every struct field at its width limits, vibrato/fade-out, editor fields, embedded effect of "
         "any type; both contexts and clone. Legacy variants are derived from generated files and from the fixture through "
         "the TLV layer (envelope chunks removed -> converted from the header's legacy arrays; signature blanked; short "
         "header record) and loaded, then saved and loaded again. TLC checks loaded = Norm(original), loaded = Read(bytes), "
         "bytes = Write(original) and the record sizes. Also: header values beyond nominal ranges, histories (save / edit / save / load "
         "/ edit / save), twin instruments with identical effects edited after a load. non-trivial = at least one sample or a non-default envelope."
         " A constructed Sampler's seven envelopes are extended in place one at a time (edit events against the state before); boundary instruments (slots 0/1/63/126/127; one Sample object in three slots)."
         " Every fifth instrument is saved after copy.deepcopy / pickle and judged against the original's state.",
    explanation="RVFormat's Sampler section (header struct at documented offsets, sample records, envelope chunks, legacy conversion)")


def sampler_section_edit(data, fn):
    """Apply fn to the list of (chnm, [chunks of that CHNM group]) of the first Sampler module section."""
    chunks = tlv.split(data)
    out, groups, cur, in_specific = [], [], None, False
    for cid, p in chunks:
        if cid == b"CHNM":
            cur = [struct.unpack("<I", p)[0], [(cid, p)]]
            groups.append(cur)
            in_specific = True
            continue
        if in_specific and cid in (b"CHDT", b"CHFF", b"CHFR"):
            cur[1].append((cid, p))
            continue
        if in_specific and cid == b"SEND":
            for g in fn(groups):
                out.extend(g[1])
            groups, in_specific = [], False
        out.append((cid, p))
    return tlv.join(out)


def run(ctx):
    import rv.api as api
    rnd = ctx.rnd
    q = ctx.quick
    path, spec = specdata.write(ctx)
    fmt.mc_format(ctx, path, spec, 5 if q else 30)
    cl = gen.classes()
    traces = []
    for i in range(70 if q else 1200):
        sm = gen.rand_module(rnd, cl["Sampler"], spec, depth=1, in_project=False)
        nontriv = any(s is not None for s in sm.samples)
        evs = [fmt.roundtrip_event(api.Synth(sm), spec, w=True), fmt.clone_event(sm, spec)]
        if i % 5 == 3:        # the instrument copied through Python's copy protocols first: the copy saves what the original holds
            import copy as _copy
            import pickle as _pickle
            for how, cp in (("deepcopy", _copy.deepcopy), ("pickle", lambda o: _pickle.loads(_pickle.dumps(o)))):
                try:
                    dup = cp(sm)
                except Exception:
                    if how == "pickle":
                        continue            # (pickling is not promised)
                    dup = None
                ev_ = fmt.roundtrip_event(api.Synth(dup), spec, w=False) if dup is not None else None
                if ev_ is not None:
                    ev_["orig"] = fmt.projection.project_any(api.Synth(sm), spec)
                    evs.append(ev_)
        data = api.Synth(sm).read()
        if i % 2 == 0:
            p = api.Project()
            p.attach_module(sm)
            evs.append(fmt.roundtrip_event(p, spec, w=True))
        # legacy variants of the generated file, through the TLV layer
        variants = []
        if len(sm.volume_envelope.points) <= 12 and len(sm.panning_envelope.points) <= 12:   # what the legacy arrays can hold
            variants.append(("no-envelope-chunks", sampler_section_edit(data, lambda gs: [g for g in gs if not (0x102 <= g[0] <= 0x108)])))
        def blank_sign(gs):
            out = []
            for g in gs:
                if g[0] == 0:
                    h = bytearray(g[1][1][1])
                    h[252:256] = b"\0\0\0\0"
                    g = [0, [g[1][0], (b"CHDT", bytes(h))]]
                out.append(g)
            return out
        variants.append(("signature-blanked", sampler_section_edit(data, blank_sign)))
        def short_header(gs):
            out = []
            for g in gs:
                if g[0] == 0:
                    g = [0, [g[1][0], (b"CHDT", bytes(g[1][1][1][:379]))]]
                out.append(g)
            return out
        variants.append(("short-header", sampler_section_edit(data, short_header)))
        def beyond(gs):      # vibrato rate / fade-out beyond the library's nominal ranges (the fields are a byte and a 16-bit word)
            out = []
            for g in gs:
                if g[0] == 0:
                    h = bytearray(g[1][1][1])
                    h[241] = rnd.choice([64, 200, 255])
                    h[242:244] = struct.pack("<H", rnd.choice([8193, 40000, 65535]))
                    g = [0, [g[1][0], (b"CHDT", bytes(h))]]
                out.append(g)
            return out
        variants.insert(rnd.randrange(len(variants) + 1), ("header-beyond-nominal", sampler_section_edit(data, beyond)))
        for name, vd in variants[: (1 if q and i % 3 else 3)]:
            ev = fmt.load_event(vd, spec)
            evs.append(ev)
            out, lo = fmt.load(vd)
            if lo is not None:      # a legacy instrument saved again must not lose what it carried
                evs.append(fmt.roundtrip_event(lo, spec, w=False))
        if i % 5 == 2:        # history: save, edit in place, save, load, edit the LOADED instrument, save
            evs += fmt.chain_events(api.Synth(sm), spec, rnd, w=False)[0][1:]
        for j, ev in enumerate(evs):
            traces.append({"id": "s%d.%d" % (i, j), "events": [ev]})
            ctx.count_case((i, j, json.dumps(ev.get("orig", ev.get("chunks")), sort_keys=True)[:5000]), nontrivial=nontriv)
    # TWIN instruments (byte-identical embedded effects) in one project, and the same file loaded twice with an edit of the
    # first copy's effect in between: each loaded instrument has its own effect (judged like a C06 edit)
    from .c06 import catalogue
    for i in range(3 if q else 30):
        sm = gen.rand_module(rnd, cl["Sampler"], spec, depth=0, in_project=False)
        ecls = cl[rnd.choice(["Amplifier", "Filter", "Echo", "Reverb"])]
        sm.effect = api.Synth(gen.rand_module(rnd, ecls, spec, 0, in_project=False))
        pj = api.Project()
        pj.attach_module(sm)
        pj.attach_module(sm.clone())
        data = pj.read()
        out, lq = fmt.load(data)
        if lq is None:
            continue
        base, leaves = catalogue(lq, spec, rnd)
        inner = [lf for lf in leaves if lf[1][:2] == ["modules", 2] and "effect" in lf[1]]
        rnd.shuffle(inner)
        events = [{"op": "base", "obj": base}]
        for kind, pth, fn, newv in inner[:5]:
            out, o2 = fmt.load(data)
            try:
                fn(o2)
                fmt.load(data)                      # the same bytes loaded once more while the edited copy is alive
                out, o3 = fmt.load(o2.read())
            except Exception as e:
                out, o3 = "edit-raised:" + type(e).__name__, None
            events.append({"op": "edit", "kind": kind, "path": pth, "value": newv, "outcome": out, "w": False, "edited": {"kind": "none"}, "chunks": [],
                           "after": fmt.projection.project_any(o3, spec, True) if o3 is not None else {"kind": "none"}})
            # ... and a FRESH load of the original bytes afterwards shows the original effect
            events.append({"op": "load", "chunks": fmt.tlv.to_json_nested(data), "outcome": "ok",
                           "obj": fmt.projection.project_any(fmt.load(data)[1], spec, True), "overflow": []})
            ctx.count_case(("twin-effects", i, json.dumps(pth)), nontrivial=True)
        traces.append({"id": "twin-effects%d" % i, "events": events})
    # a CONSTRUCTED instrument whose envelopes are edited IN PLACE, one at a time: each envelope owns its point list, so the saved
    # file shows the added point in that envelope only (judged like a C06 edit against the state before the edit)
    def envs_of(sm):
        return [sm.volume_envelope, sm.panning_envelope, sm.pitch_envelope] + list(sm.effect_control_envelopes)
    for k in range(7):
        s0 = api.Synth(cl["Sampler"]())
        base = fmt.projection.project_any(s0, spec, True)
        oldpts = base["module"][0]["payload"]["envs"][k]["points"]
        newpts = [list(p_) for p_ in oldpts] + [[(oldpts[-1][0] if oldpts else 0) + 7 + k, 100 + k]]
        try:
            envs_of(s0.module)[k].points.append(tuple(newpts[-1]))
            out, o3 = fmt.load(s0.read())
        except Exception as e:
            out, o3 = "edit-raised:" + type(e).__name__, None
        traces.append({"id": "constructed-envelope%d" % k, "events": [
            {"op": "base", "obj": base},
            {"op": "edit", "kind": "payload.envelope-append", "path": ["module", 1, "payload", "envs", k + 1, "points"], "value": newpts,
             "outcome": out, "w": False, "edited": {"kind": "none"}, "chunks": [],
             "after": fmt.projection.project_any(o3, spec, True) if o3 is not None else {"kind": "none"}}]})
        ctx.count_case(("constructed-envelope", k), nontrivial=True)
    for tr in fmt.boundary_traces(spec):          # deterministic boundary values (slots 0/126/127, one Sample object in three slots)
        if "sampler" in tr["id"]:
            traces.append(tr)
            ctx.count_case((tr["id"],), nontrivial=True)
    # the shipped fixture and its variants
    for name, data in fmt.fixtures():
        if "sampler" in name:
            traces.append({"id": "fixture:" + name, "events": [fmt.load_event(data, spec)]})
            out, lo = fmt.load(data)
            traces.append({"id": "fixture-resaved:" + name, "events": [fmt.roundtrip_event(lo, spec, w=False)]})
            vd = sampler_section_edit(data, lambda gs: [g for g in gs if not (0x102 <= g[0] <= 0x108)])
            traces.append({"id": "fixture-no-envelopes:" + name, "events": [fmt.load_event(vd, spec)]})
    cans = []
    def canary(name, pred, mut):
        src = next((t for t in traces if pred(t["events"][0])), None)
        if src is None:
            return
        c = json.loads(json.dumps(src))
        c["id"] = "canary-" + name
        mut(c["events"][0])
        traces.append(c)
        cans.append(c["id"])
    def smod(e):
        o = e["back"] if "back" in e else e["obj"]
        return o["module"][0] if o["kind"] == "synth" else o["modules"][1]
    has_sample = lambda e: e["op"] == "roundtrip" and e["back"].get("kind") == "synth" and any(smod(e)["payload"]["samples"])
    canary("pcm-byte", lambda e: has_sample(e) and any(s and s[0]["data"] for s in smod(e)["payload"]["samples"]),
           lambda e: next(s for s in smod(e)["payload"]["samples"] if s and s[0]["data"])[0]["data"].__setitem__(0, (next(s for s in smod(e)["payload"]["samples"] if s and s[0]["data"])[0]["data"][0] + 1) % 256))
    canary("slot-moved", has_sample, lambda e: smod(e)["payload"]["samples"].insert(0, smod(e)["payload"]["samples"].pop()))
    canary("envelope-point", lambda e: e["op"] == "roundtrip" and e["back"].get("kind") == "synth" and smod(e)["payload"]["envs"][1]["points"],
           lambda e: smod(e)["payload"]["envs"][1]["points"][0].__setitem__(1, smod(e)["payload"]["envs"][1]["points"][0][1] + 1))
    canary("note-map", lambda e: e["op"] == "roundtrip" and e["back"].get("kind") == "synth",
           lambda e: smod(e)["payload"]["note_samples"].__setitem__(118, (smod(e)["payload"]["note_samples"][118] + 1) % 128))
    canary("legacy-conversion", lambda e: e["op"] == "load" and e["outcome"] == "ok" and e["obj"].get("kind") == "synth" and smod(e)["payload"]["envs"][0]["points"],
           lambda e: smod(e)["payload"]["envs"][0]["points"].pop())
    e0 = traces[0]["events"][0]
    pl = e0["orig"]["module"][0]["payload"]
    ctx.sample({"id": traces[0]["id"], "slots": [i for i, s in enumerate(pl["samples"]) if s], "envs_points": [len(e["points"]) for e in pl["envs"]],
                "note_samples_head": pl["note_samples"][:8], "effect": bool(pl["effect"])})
    fmt.validate(ctx, traces, "c16_sampler", cans, path)
    ctx.exhaustive = False

"""C14 - ownership and indexing of modules and patterns stay coherent."""
import io
import json

from .. import tlc, trace
from ..common import MachineryError

EVIDENCE = dict(
    level="model_checking",
    rule="mode A: TLC explores MC_RVProject (2 projects, free modules, patterns, gaps, save/load, note module "
         "references) exhaustively and emits a hash-selected share of the transitions; each is executed on real "
         "Project/Module/Pattern/Note objects put into the pre state and the projected post state, outcome and "
         "return value are compared with the spec. mode B: random histories through the public API validated by "
         "Trace_RVProject with Coherent evaluated on every real state (also 265 modules). Actions include attach at the end "
         "(loading=True), raw 16-bit note numbers, nested += lists, new_module with the parent keyword; MC_RVSystem is simulated and "
         "explored exhaustively with transitions replayed by state injection. non-trivial = state changes or call refused."
         " Histories include load_without_output (the project written with position 0 emptied and read back: RVProject!LoadNoOutput, coherence clauses about position 0 waived by CoherentH, all others kept)."
         " Histories also clear a position by hand (project.modules[i] = None), re-use it and attach the removed module again (RVProject!RemoveMod).",
    explanation="states/transitions from the exhaustive bounded model; traces are real executions")


def _api():
    import rv.api as api
    from rv.errors import ModuleOwnershipError, PatternOwnershipError
    return api, ModuleOwnershipError, PatternOwnershipError


class World:
    """Real objects for the abstract ids: projects 1,2; modules 1..nm (1,2 = outputs); patterns 1..np."""

    def __init__(self, nm, np_, classes, extra_output=False):
        api = _api()[0]
        self.extra_output = extra_output
        self.api = api
        self.nm, self.np = nm, np_
        self.classes = classes
        self.proj = {1: api.Project(), 2: api.Project()}
        self.proj[2].based_on_version = (1, 9, 4, 0)      # project 2 was once started in an old SunVox (the stamp survives every save)
        self.mod = {1: self.proj[1].output, 2: self.proj[2].output}
        for m in range(3, nm + 1):
            self.mod[m] = self.cls_of(m)()
        self.pat = {}
        for q in range(1, np_ + 1):     # pattern 1 (and odd ids) are Patterns with one note; even ids are PatternClones
            self.pat[q] = api.Pattern(tracks=1, lines=2) if q % 2 == 1 else api.PatternClone(source=0)

    def cls_of(self, m):
        """The last free module id is a free Output instance (a second Output must never take over Project.output)."""
        if self.extra_output and m == self.nm and self.nm >= 4:
            return self.api.m.Output
        return self.classes[m % len(self.classes)]

    def is_clone(self, q):
        return q % 2 == 0

    # -- state injection through public attributes
    def inject(self, s):
        api = self.api
        for P in (1, 2):
            p = self.proj[P]
            p.modules = [self.mod[m] if m else None for m in s["slots"][P - 1]]
            p.output = p.modules[0]
            p.patterns = [self.pat[q] if q else None for q in s["pats"][P - 1]]
        for m in range(1, self.nm + 1):
            o = self.mod[m]
            idx = s["index"][m - 1]
            o.index = None if idx < 0 else idx
            par = s["parent"][m - 1]
            o.parent = self.proj[par] if par else None
        for q in range(1, self.np + 1):
            o = self.pat[q]
            pr = s["pproj"][q - 1]
            o.project = self.proj[pr] if pr else None
            if not self.is_clone(q):
                o.data[0][0].module = s["nmod"][q - 1]

    def mid(self, o):
        if o is None:
            return 0
        for k, v in self.mod.items():
            if v is o:
                return k
        return -1      # an object the world does not know: never equal to a spec id

    def qid(self, o):
        if o is None:
            return 0
        for k, v in self.pat.items():
            if v is o:
                return k
        return -1

    def pid(self, o):
        for k, v in self.proj.items():
            if v is o:
                return k
        return 0 if o is None else -1

    def project(self):
        s = {"slots": [], "pats": []}
        for P in (1, 2):
            s["slots"].append([self.mid(m) for m in self.proj[P].modules])
            s["pats"].append([self.qid(q) for q in self.proj[P].patterns])
        # (the Output class carries index = 0 as a class attribute: a free Output instance is projected as having no index)
        s["index"] = [(-1 if (self.mod[m].index is None or self.mod[m].parent is None) else int(self.mod[m].index)) for m in range(1, self.nm + 1)]
        s["output"] = [self.mid(self.proj[P].output) for P in (1, 2)]
        s["parent"] = [self.pid(self.mod[m].parent) for m in range(1, self.nm + 1)]
        s["pproj"] = [self.pid(self.pat[q].project) for q in range(1, self.np + 1)]
        s["nmod"] = [0 if self.is_clone(q) else int(self.pat[q].data[0][0].module) for q in range(1, self.np + 1)]
        return s

    def item(self, it):
        return self.mod[it["id"]] if it["k"] == "m" else (self.pat[it["id"]] if it["id"] else None)

    def do(self, act, args, rnd=None):
        """Execute one public call; returns (outcome, ret)."""
        api, MOE, POE = _api()
        ret = -9
        try:
            if act == "attach":
                P, m = args
                r = self.proj[P].attach_module(self.mod[m])
                ret = self.mid(r)
            elif act == "attach_end":
                P, m = args
                r = self.proj[P].attach_module(self.mod[m], loading=True)
                ret = self.mid(r)
            elif act == "set_note_num":
                q, n = args
                self.pat[q].data[0][0].module = n
            elif act == "new_module":
                P, m = args
                cls = self.cls_of(m)
                # (every other time with the constructor's own `parent` keyword: the module names its project before it is attached)
                o = self.proj[P].new_module(cls, parent=self.proj[P]) if m % 2 else self.proj[P].new_module(cls)
                self.mod[m] = o
                ret = m
            elif act == "attach_none":
                r = self.proj[args[0]].attach_module(None)
                if r is not None:
                    return "bad-return-value", ret
            elif act == "attach_pattern":
                P, q = args
                ret = self.proj[P].attach_pattern(self.pat[q] if q else None)
            elif act == "iadd":
                P, items = args
                objs = [self.item(it) for it in items]
                p = self.proj[P]
                if len(objs) == 1 and objs[0] is not None and (rnd is None or rnd.random() < 0.7):
                    p += objs[0]
                else:
                    self._iadd_n = getattr(self, "_iadd_n", 0) + 1
                    if len(objs) >= 2 and not any(o is None for o in objs) and self._iadd_n % 2:
                        p += [objs[:1], objs[1:]]          # nested lists are flattened
                    elif any(o is None for o in objs):
                        # `project += [None]` is not a way to add an empty pattern slot; use the method
                        for o in objs:
                            if o is None:
                                p.attach_pattern(None)
                            else:
                                p += o
                    else:
                        p += objs
                if p is not self.proj[P]:
                    return "bad-return-value", ret
            elif act == "saveload":
                P = args[0]
                old = self.proj[P]
                ids = [self.mid(m) for m in old.modules]
                qids = [self.qid(q) for q in old.patterns]
                new = api.read_sunvox_file(io.BytesIO(old.read()))
                for i, m in enumerate(new.modules):
                    if m is not None and i < len(ids) and ids[i] > 0:
                        self.mod[ids[i]] = m
                for i, q in enumerate(new.patterns):
                    if q is not None and i < len(qids) and qids[i] > 0:
                        self.pat[qids[i]] = q
                if P not in ids:
                    self.mod[P] = new.output      # (a project loaded without its output: the Output object it carries)
                self.proj[P] = new
            elif act == "remove_module":
                P, m = args
                lst = self.proj[P].modules
                for i, x in enumerate(lst):
                    if x is self.mod[m]:
                        lst[i] = None
            elif act == "load_without_output":
                # the project written with position 0 emptied (project.modules[0] = None) and read back
                P = args[0]
                old = self.proj[P]
                ids = [self.mid(m) for m in old.modules]
                qids = [self.qid(q) for q in old.patterns]
                if old.modules:
                    old.modules[0] = None
                new = api.read_sunvox_file(io.BytesIO(old.read()))
                for i, m in enumerate(new.modules):
                    if m is not None and i < len(ids) and ids[i] > 0:
                        self.mod[ids[i]] = m
                for i, q in enumerate(new.patterns):
                    if q is not None and i < len(qids) and qids[i] > 0:
                        self.pat[qids[i]] = q
                self.mod[P] = new.output          # the Output object the loaded project carries
                self.proj[P] = new
            elif act == "set_note_mod":
                q, m = args
                self.pat[q].data[0][0].mod = self.mod[m]
            elif act == "get_note_mod":
                ret = self.mid(self.pat[args[0]].data[0][0].mod)
            else:
                raise MachineryError("unknown act " + act)
        except MOE:
            return "ModuleOwnershipError", ret
        except POE:
            return "PatternOwnershipError", ret
        except MachineryError:
            raise
        except Exception as e:
            return "exception:" + type(e).__name__, ret
        return "ok", ret


def classes():
    api = _api()[0]
    return [api.m.Amplifier, api.m.Generator, api.m.Filter, api.m.Echo, api.m.Lfo]


def mc_cfg(nm, np_, maxslots, maxpats, emitk, sel):
    return ("CONSTANTS NM = %d NP = %d MaxSlots = %d MaxPats = %d EmitK = %d EmitSel = %d\n"
            "INIT Init\nNEXT Next\nCONSTRAINT Bound\nINVARIANT CoherentNow\nINVARIANT NoteResolves\nCHECK_DEADLOCK FALSE\n"
            % (nm, np_, maxslots, maxpats, emitk, sel))


def graph_replay(ctx, nm, np_, maxslots, maxpats, emitk, timeout=2400):
    name = "mc_project_nm%d_s%d" % (nm, maxslots)
    w = World(nm, np_, classes())
    cnt = [0]

    def on_msg(msg):
        if msg.get("k") != "T":
            return
        cnt[0] += 1
        pre = msg["pre"]
        w.inject(pre)
        act, args = msg["act"], msg["args"]
        out, ret = w.do(act, args)
        post = w.project()
        changed = post != pre
        ctx.count_case((json.dumps(pre, sort_keys=True), act, json.dumps(args)), nontrivial=changed or out != "ok")
        bad = None
        if out != msg["outcome"]:
            bad = "outcome"
        elif post not in msg["posts"]:
            bad = "post-state"
        elif out == "ok" and act == "get_note_mod" and ret not in msg["ret"]:
            bad = "return-value"
        elif out == "ok" and act in ("attach", "new_module", "attach_end", "attach_pattern") and ret != msg["ret"]:
            bad = "return-value"
        if bad:
            ctx.violation(bad, "graph-replay:%s %s%s" % (name, act, json.dumps(args)),
                          {"pre": pre, "act": act, "args": args, "expected_outcome": msg["outcome"], "observed_outcome": out,
                           "expected_posts": msg["posts"], "observed_post": post, "expected_ret": msg["ret"], "observed_ret": ret})
        if cnt[0] <= 1 or (changed and len(ctx.cov["samples"]) < 3):
            ctx.sample({"mode": "A", "pre": pre, "act": act, "args": args, "outcome": out, "post": post, "ret": ret})

    res = tlc.run("MC_RVProject", mc_cfg(nm, np_, maxslots, maxpats, emitk, ctx.seed), ctx.work,
                  workers=16, timeout=timeout, name=name, on_msg=on_msg)
    if res.invariant_violated:
        ctx.violation("model:" + str(res.invariant_violated), name, res.counterexample[:3000])
        return
    ctx.add_mc(name, res, "exhaustive within NM=%d NP=%d MaxSlots=%d MaxPats=%d; 1/%d of transitions replayed" % (
        nm, np_, maxslots, maxpats, max(emitk, 1)))
    ctx.cov["traces_validated_against_impl"] += cnt[0]
    ctx.cov["graph_replay_transitions"] = ctx.cov.get("graph_replay_transitions", 0) + cnt[0]
    if cnt[0] == 0:
        raise MachineryError("no transition emitted")


def random_history(rnd, tid, nm, np_, length, extra_output=False):
    w = World(nm, np_, classes(), extra_output=extra_output)
    ev = []
    for _ in range(length):
        r = rnd.random()
        P = rnd.choice([1, 2])
        free = [m for m in range(3, nm + 1) if w.mod[m].parent is None]
        if r < 0.05:
            act, args = "attach_end", [P, rnd.randrange(3, nm + 1)]
        elif r < 0.25:
            act, args = "attach", [P, rnd.randrange(1, nm + 1)]
        elif r < 0.33 and free:
            act, args = "new_module", [P, rnd.choice(free)]
        elif r < 0.43:
            act, args = "attach_none", [P]
        elif r < 0.55:
            act, args = "attach_pattern", [P, rnd.randrange(0, np_ + 1)]
        elif r < 0.70:
            items = []
            for _i in range(rnd.choice([1, 1, 2, 3])):
                if rnd.random() < 0.6:
                    items.append({"k": "m", "id": rnd.randrange(3, nm + 1)})
                else:
                    items.append({"k": "q", "id": rnd.randrange(1, np_ + 1)})
            act, args = "iadd", [P, items]
        elif r < 0.80:
            act, args = "saveload", [P]
            if r >= 0.775 and not extra_output and w.mid(w.proj[P].modules[0] if w.proj[P].modules else None) in (0, P):
                act = "load_without_output"
        elif r < 0.83:
            act, args = "set_note_num", [rnd.choice([q for q in range(1, np_ + 1) if q % 2 == 1]), rnd.choice([32768, 65535, 255, 256])]
        elif r < 0.90:
            act, args = "set_note_mod", [rnd.choice([q for q in range(1, np_ + 1) if q % 2 == 1]), rnd.randrange(1, nm + 1)]
        else:
            act, args = "get_note_mod", [rnd.choice([q for q in range(1, np_ + 1) if q % 2 == 1])]
        if act == "attach" and args[1] <= 2 and any(not w.proj[P_].modules or w.mid(w.proj[P_].modules[0]) != P_ for P_ in (1, 2)):
            # (an Output object offered to a project that was loaded without its output could land behind position 0, and a
            #  file with the output elsewhere cannot be read back: outside C14, which has the output at position 0)
            args = [args[0], 3]
        if act in ("saveload", "load_without_output") and extra_output and w.mod[nm] in w.proj[args[0]].modules:
            # a project holding a second Output instance cannot be written and read back (no STYP for Output): not part of C14
            act, args = "attach_none", [args[0]]
        seq = [(act, args)]
        if act == "attach_none" and 0.415 <= r < 0.43 and not extra_output:
            # a position cleared by hand (project.modules[i] = None), re-used by another module, then the removed module attached again
            inside = [m for m in range(3, nm + 1) if w.mod[m].parent is w.proj[P] and any(x is w.mod[m] for x in w.proj[P].modules)]
            if inside:
                m = inside[len(ev) % len(inside)]
                seq = [("remove_module", [P, m])] + ([("attach", [P, free[0]])] if free else []) + [("attach", [P, m])]
        for act, args in seq:
            out, ret = w.do(act, args, rnd)
            ev.append({"op": act, "args": args, "outcome": out, "ret": ret, "post": w.project()})
    return {"id": tid, "nm": nm, "np": np_, "events": ev}


def run(ctx):
    q = ctx.quick
    if q:
        graph_replay(ctx, 4, 2, 3, 2, 8)
    else:
        graph_replay(ctx, 5, 2, 4, 2, 24)
    # the composed workspace model: exhaustive for small constants, then simulated mixed histories (attach, gaps, connect,
    # controller assignment, failed loads, save+load, note.mod) replayed through the public API without state injection
    from .. import system
    system.exhaustive(ctx, q)
    system.graph_replay(ctx, q)          # every 16th (thorough: 4th) transition of the composed model, with state injection
    system.simulate_and_replay(ctx, 400 if q else 4000, 14 if q else 20)
    rnd = ctx.rnd
    traces = []
    nt, ln = (150, 50) if q else (2000, 100)
    for t in range(nt):
        traces.append(random_history(rnd, "h%d" % t, rnd.randrange(4, 10), rnd.randrange(1, 5), rnd.randrange(ln // 2, ln + 1),
                                     extra_output=(t % 3 == 0)))
    traces.append(random_history(rnd, "h-large", 265, 3, 320 if q else 600))       # scale: positions above 255
    for tr in traces:
        for i, e in enumerate(tr["events"]):
            ctx.count_case((tr["id"], i, repr(e)))
    canaries = []
    for tr in traces[:5]:
        c = json.loads(json.dumps(tr))
        c["id"] = tr["id"] + "#canary"
        evs = [e for e in c["events"] if any(x >= 0 for x in e["post"]["index"][2:])]
        if not evs:
            continue
        e = rnd.choice(evs)
        k = rnd.choice([i for i, x in enumerate(e["post"]["index"]) if i >= 2 and x >= 0])
        e["post"]["index"][k] += 1
        traces.append(c)
        canaries.append(c["id"])
    ctx.sample({"mode": "B", "trace": traces[0]["id"], "first_events": traces[0]["events"][:3]})
    trace.validate(ctx, "Trace_RVProject", traces, "c14_hist", canaries=canaries)
    ctx.exhaustive = False

"""C17 - objects are isolated: no hidden shared state between instances or clones."""
import hashlib
import io
import json
import types
from enum import Enum

from .. import fmt, gen, specdata, tlc, trace, projection
from ..common import MachineryError
from . import c06

EVIDENCE = dict(
    level="model_checking",
    rule="MC_RVIsolation explores construct / clone / mutate-in-place / assign over two roots and list-valued attributes "
         "with class-level defaults: NoSharing and the frame condition hold when every constructor policy is 'copy', and TLC "
         "finds the violation as soon as one is 'alias' (run as a self-test). On real objects: (i) heap events - after "
         "construction, clone, load and each mutation the instance state of independent roots (every module type, projects, "
         "synths, patterns; B obtained by construction, by cloning A, by loading the same bytes) is walked and the identities "
         "of all mutable containers reached are logged together with those reachable from class attributes of rv classes; TLC "
         "evaluates NoSharing. (ii) mutate events - every catalogue leaf kind of A (C06's catalogue: controllers, options, "
         "in-place element edits of curves, waveforms, envelope points, mappings, note cells, sample fields, links) is "
         "mutated and B's projection and saved bytes are digested before/after, in both directions; TLC requires equality. "
         "Further probes: refused cross-project requests (also disconnects), notes cloned into another project, deep copies, an "
         "attached MetaModule next to neighbours and copies of its embedded project, failed loads followed by assignments that "
         "must still be refused, failures while building independent objects. "
         "non-trivial = every mutate event, and heap events with at least 3 cells per root."
         " Construction recipes (a MultiCtl driving un-updated user-defined controllers and reflecting, a macro over enumerations, a Sampler with extended envelopes, fresh objects) are evaluated at the start and at the very end of the run and must agree; a child interpreter keeps 40 loaded MetaModules alive, collects garbage, builds 1000 projects at once and turns every Amplifier knob in each."
         " A project whose MultiCtl drives an Amplifier and whose MetaModule hears an embedded controller is copied by deepcopy / pickle and driven in both directions.",
    explanation="two layers: object identity of mutable containers (heap) and observable state/bytes (value)")

SKIP_TYPES = None


def _skip_types():
    global SKIP_TYPES
    if SKIP_TYPES is None:
        from rv.controller import Controller, DependentRange, Range
        from rv.option import Option
        SKIP_TYPES = (Controller, DependentRange, Range, Option, Enum, type, types.FunctionType, types.ModuleType,
                      types.MethodType, types.BuiltinFunctionType, property, staticmethod, classmethod)
    return SKIP_TYPES


def is_rv_obj(o):
    m = getattr(type(o), "__module__", "") or ""
    return m.startswith("rv.") or m == "rv"


def walk(root, labels, prefix):
    """Identity set of every mutable container reachable from the INSTANCE state of root."""
    skip = _skip_types()
    seen = {}
    stack = [(root, prefix)]
    while stack:
        o, path = stack.pop()
        if o is None or isinstance(o, (int, float, str, bytes, bool, complex, frozenset)) or isinstance(o, skip):
            continue
        if isinstance(o, tuple):
            for i, x in enumerate(o):
                stack.append((x, path + "[%d]" % i))
            continue
        if id(o) in seen:
            continue
        if isinstance(o, (list, set, bytearray)) or isinstance(o, dict):
            seen[id(o)] = path
            items = o.items() if isinstance(o, dict) else enumerate(o) if not isinstance(o, (set, bytearray)) else []
            for k, x in items:
                stack.append((x, path + "[%r]" % (k,)))
            continue
        if is_rv_obj(o) or hasattr(o, "__dict__") and type(o).__module__ not in ("builtins",):
            if not is_rv_obj(o) and not isinstance(o, (io.IOBase,)):
                # foreign helper objects (e.g. defaultdict handled above); attrs classes etc. live in rv.*
                pass
            seen[id(o)] = path
            d = getattr(o, "__dict__", None)
            if d is not None:
                seen[id(d)] = path + ".__dict__"
                for k, x in d.items():
                    stack.append((x, path + "." + k))
            for k in getattr(type(o), "__slots__", ()) or ():
                if hasattr(o, k):
                    stack.append((getattr(o, k), path + "." + k))
    for i, p in seen.items():
        labels.setdefault(i, p)
    return set(seen)


def class_cells(labels):
    """Mutable containers reachable from class attributes of the library's classes."""
    import sys
    skip = _skip_types()
    out = set()
    for mname, mod in list(sys.modules.items()):
        if not (mname == "rv" or mname.startswith("rv.")):
            continue
        for cname, cls in list(vars(mod).items()):
            if not isinstance(cls, type) or not (cls.__module__ or "").startswith("rv"):
                continue
            for k, v in list(vars(cls).items()):
                f = getattr(v, "__func__", v)
                if isinstance(f, types.FunctionType):       # mutable default arguments are hidden shared state too
                    for dv in (f.__defaults__ or ()) + tuple((f.__kwdefaults__ or {}).values()):
                        if (isinstance(dv, (list, dict, set, bytearray)) or (is_rv_obj(dv) and not isinstance(dv, skip))) and id(dv) not in out:
                            out.add(id(dv))
                            labels.setdefault(id(dv), "class:%s.%s(default argument)" % (cls.__name__, k))
                            CELL_OBJS[id(dv)] = dv
                if k.startswith("__") or isinstance(v, skip):
                    continue
                if isinstance(v, (list, dict, set, bytearray)):
                    stack = [(v, "%s.%s" % (cls.__name__, k))]
                    while stack:
                        o, path = stack.pop()
                        if isinstance(o, (list, dict, set, bytearray)) and id(o) not in out:
                            if isinstance(o, dict) and all(isinstance(x, skip) for x in o.values()) and o:
                                continue          # e.g. cls.controllers / cls.options: descriptors, reachable only through the class
                            out.add(id(o))
                            CELL_OBJS[id(o)] = o
                            labels.setdefault(id(o), "class:" + path)
                            for x in (o.values() if isinstance(o, dict) else o if not isinstance(o, (set, bytearray)) else []):
                                stack.append((x, path + "[]"))
    return out


CELL_OBJS = {}


def class_state(labels):
    """Digest of the contents of every class-level cell (shallow repr of sizes and element identities/values)."""
    out = {}
    for i, o in CELL_OBJS.items():
        try:
            if isinstance(o, dict):
                d = "dict:%d:%s" % (len(o), hashlib.sha1(repr(sorted(map(repr, o.keys()))).encode()).hexdigest()[:8])
            elif isinstance(o, (list, bytearray)):
                d = "seq:%d:%s" % (len(o), hashlib.sha1(repr([x if isinstance(x, (int, str, bytes, float, tuple)) else id(x) for x in o]).encode()).hexdigest()[:8])
            else:
                d = "set:%d" % len(o)
        except Exception:
            d = "?"
        out[labels.get(i, str(i))] = d
    return out


class Renumber:
    def __init__(self):
        self.m = {}

    def __call__(self, ids):
        return sorted(self.m.setdefault(i, len(self.m) + 1) for i in ids)


def digest(o, spec):
    pj = projection.project_any(o, spec) if not _is_module(o) else projection.module(o, spec)
    s = json.dumps(pj, sort_keys=True)
    try:
        b = o.read() if hasattr(o, "read") else _synth_bytes(o)
    except Exception as e:
        b = ("save-raised:" + type(e).__name__).encode()
    return hashlib.sha1(s.encode()).hexdigest(), hashlib.sha1(b).hexdigest(), pj


def _is_module(o):
    from rv.modules.module import Module
    return isinstance(o, Module)


def _synth_bytes(mod):
    import rv.api as api
    return api.Synth(mod).read()


def first_diff(a, b, path=""):
    if type(a) != type(b):
        return path
    if isinstance(a, dict):
        for k in a:
            if k not in b or a[k] != b[k]:
                return first_diff(a[k], b.get(k), path + "." + str(k))
    elif isinstance(a, list):
        if len(a) != len(b):
            return path + ".length"
        for i, (x, y) in enumerate(zip(a, b)):
            if x != y:
                return first_diff(x, y, path + "[%d]" % i)
    return path


def _gc_child():
    """(child process) 40 loads of one MetaModule file kept alive, a garbage collection, many new projects built at once and
    kept alive, every knob of an Amplifier in each of them turned: prints the `mutate` event about the loaded synths."""
    import gc
    import sys
    from ..common import setup_repo_path
    setup_repo_path()
    import rv.api as api
    arg = json.load(sys.stdin)
    spec = arg["spec"]
    mm = api.m.MetaModule()
    amp = mm.project.new_module(api.m.Amplifier)
    for j, c_ in enumerate((0, 1, 3, 4, 7, 2, 5, 6)):
        mm.mappings.values[j].module, mm.mappings.values[j].controller = amp.index, c_
    mm.user_defined_controllers = 8
    mm.update_user_defined_controllers()
    data = api.Synth(mm).read()
    loaded = [api.read_sunvox_file(io.BytesIO(data)) for _ in range(40)]
    gc.collect()
    fresh = [api.Project() for _ in range(arg["n"])]          # all built at once and kept alive
    before = [digest(x, spec) for x in loaded]
    raisedn, first = 0, ""
    for k, pj in enumerate(fresh):
        try:
            a = pj.new_module(api.m.Amplifier)
            a.volume, a.balance, a.dc_offset, a.inverse, a.stereo_width, a.absolute, a.fine_volume, a.gain = 1000 + k % 20, -7, 5, True, 77, True, 1234, 4321
        except Exception as e:       # (each of these works on a project of its own)
            raisedn += 1
            first = first or repr(e)[:160]
    after = [digest(x, spec) for x in loaded]
    bad = [i for i in range(len(loaded)) if before[i][:2] != after[i][:2]]
    i0 = bad[0] if bad else 0
    ev = {"op": "mutate", "kind": "fresh-projects-built-and-edited-after-gc",
          "provenance": "40 loads of one MetaModule file, %d changed, %d edits of fresh projects raised %s" % (len(bad), raisedn, first),
          "state_before": before[i0][0], "state_after": after[i0][0] if not raisedn else "raised", "bytes_before": before[i0][1],
          "bytes_after": after[i0][1] if not raisedn else "raised", "diff": first_diff(before[i0][2], after[i0][2])}
    json.dump(ev, sys.stdout)


def late_traces(ctx, api, spec, recipes, recipes_before, digest, first_diff):
    """(run at the very end) the recipes again; loaded MetaModules kept alive while garbage is collected and many new projects
    are built and edited (an object's identity may be RE-USED by a later object: nothing may be keyed by it)."""
    import gc
    out = []
    # loaded MetaModules, a collection, fresh projects with every Amplifier knob turned: in a NEW interpreter (what memory a new
    # object gets depends on everything the process did before; a small process re-uses the places given up during the loads)
    import subprocess
    import sys
    r = subprocess.run([sys.executable, "-c", "from rvverif.drivers.c17 import _gc_child; _gc_child()"],
                       input=json.dumps({"spec": spec, "n": 1000 if ctx.quick else 5000}), capture_output=True, text=True, timeout=900)
    if r.returncode != 0:
        raise MachineryError("gc child failed: " + r.stderr[-800:])
    out.append({"id": "late/loaded-metamodules-vs-fresh-projects", "events": [json.loads(r.stdout)]})
    ctx.count_case(("late", "gc"), nontrivial=True)
    again = recipes()
    for name in sorted(recipes_before):
        b, a = recipes_before[name], again[name]
        out.append({"id": "late/recipe/" + name, "events": [
            {"op": "mutate", "kind": "same-construction-at-start-and-end-of-run", "provenance": "recipe " + name,
             "state_before": b[0], "state_after": a[0], "bytes_before": b[1], "bytes_after": a[1], "diff": first_diff(b[2], a[2])}]})
        ctx.count_case(("late", "recipe", name), nontrivial=True)
    return out


def run(ctx):
    import rv.api as api
    rnd = ctx.rnd
    q = ctx.quick
    path, spec = specdata.write(ctx)
    for pol, expect in (('{"copy"}', False), ('{"copy", "alias"}', True)):
        cfg = ("CONSTANTS NA = 2 MaxCells = %d Policies = %s\nSPECIFICATION Spec\nINVARIANT Isolated\nPROPERTY Frame\nCHECK_DEADLOCK FALSE\n"
               % (10 if q else 13, pol))
        res = tlc.run("MC_RVIsolation", cfg, ctx.work, workers=8, timeout=1500, name="mc_isolation_" + ("alias" if expect else "copy"))
        violated = bool(res.invariant_violated or res.property_violated)
        if expect:
            ctx.canary("model-detects-aliased-default", violated)
        else:
            if violated:
                ctx.violation("model:" + str(res.invariant_violated or res.property_violated), "MC_RVIsolation", res.counterexample[:2000])
            ctx.add_mc("mc_isolation", res, "all policies copy: Isolated and Frame hold")
    cl = gen.classes()
    labels = {}
    rn = Renumber()
    traces = []

    class_cells(labels)
    base_state = class_state(labels)
    base_digest = hashlib.sha1(json.dumps(base_state, sort_keys=True).encode()).hexdigest()

    def heap_event(after, roots):
        cc = class_cells(labels)
        st = class_state(labels)
        changed = sorted(k for k in st if base_state.get(k, st[k]) != st[k])
        ev = {"op": "heap", "after": after, "roots": [{"name": n, "cells": rn(walk(o, labels, n))} for n, o in roots], "classcells": rn(cc),
              "class_state0": base_digest if not changed else base_digest, "class_state": base_digest if not changed else "changed",
              "class_changed": changed[:5]}
        return ev

    def make(t, how, src=None, data=None):
        if how == "construct":
            return gen.rand_module(rnd, cl[t], spec, depth=1, in_project=False) if rnd.random() < 0.7 else cl[t]()
        if how == "clone":
            return src.clone()
        return api.read_sunvox_file(io.BytesIO(data)).module

    def raised(tid, provenance, e, events):
        """An operation on one object failed although the same operation works in isolation: recorded as a rejected probe."""
        events.append({"op": "mutate", "kind": "operation-raised:" + type(e).__name__, "provenance": provenance,
                       "state_before": "ok", "state_after": "raised", "bytes_before": "ok", "bytes_after": "raised", "diff": repr(e)[:200]})
        traces.append({"id": tid, "events": events})

    # RECIPES: fixed constructions whose observable result (state, bytes, values delivered) is taken now and again at the very end,
    # after everything else in this run (loads of every fixture, clones, failing loads, edits): an independently constructed
    # object is what its construction makes it, whatever other objects went through before
    def recipes():
        out = {}
        def rec(name, fn):
            try:
                out[name] = fn()
            except Exception as e:
                out[name] = ("raised:" + type(e).__name__, "raised", {"raised": repr(e)[:120]})
        def r_multictl_meta():
            pj = api.Project()
            mm = pj.new_module(api.m.MetaModule)
            amp = mm.project.new_module(api.m.Amplifier)
            from rv.errors import override_raise_controller_value_errors
            for j, c_ in enumerate((6, 6, 6, 6)):       # (fine_volume: 0..32768, the range a user-defined controller starts with)
                mm.mappings.values[j].module, mm.mappings.values[j].controller = amp.index, c_
            mm.user_defined_controllers = 4             # (exposed, ranges not re-derived: the controllers are as constructed)
            got = []
            with override_raise_controller_value_errors(False):
                for j in range(4):
                    mc = pj.new_module(api.m.MultiCtl)
                    pj.connect(mc, mm)
                    mc.mappings.values[0].controller = 6 + j       # user_defined_<j+1>
                    mc.value = 16384 + 1000 * j
                    got += [int(getattr(mm, "user_defined_%d" % (j + 1))), int(amp.fine_volume)]
                    try:
                        mc.reflect(0)
                        got.append(int(mc.value))
                    except Exception as e:
                        got.append(type(e).__name__)
            d = digest(pj, spec)
            return d[0] + repr(got), d[1], {"delivered": got, "proj": d[2]}
        def r_lfo_macro():
            pj = api.Project()
            lfo = pj.new_module(api.m.Lfo)
            gn = pj.new_module(api.m.Generator)
            mc = api.m.MultiCtl.macro(pj, (lfo, "waveform"), (gn, "waveform"))
            mc.value = 30000
            d = digest(pj, spec)
            return d[0] + repr([int(mc.gain), int(lfo.waveform), int(gn.waveform)]), d[1], {"gain": int(mc.gain), "proj": d[2]}
        def r_sampler():
            sm = api.m.Sampler()
            for e_ in [sm.volume_envelope, sm.panning_envelope, sm.pitch_envelope] + list(sm.effect_control_envelopes):
                e_.points.append((999, e_.range[0]))
            return digest(sm, spec)
        def r_plain(t):
            return lambda: digest(cl[t](), spec)
        rec("multictl->metamodule", r_multictl_meta)
        rec("macro-over-enums", r_lfo_macro)
        rec("sampler-envelopes-extended", r_sampler)
        for t in ("MetaModule", "MultiCtl", "Amplifier", "Lfo" if "Lfo" in cl else "LFO", "SpectraVoice", "Generator"):
            if t in cl:
                rec("fresh-" + t, r_plain(t))
        rec("fresh-project", lambda: digest(api.Project(), spec))
        return out
    recipes_before = recipes()
    types_ = sorted(cl)
    for t in types_:
        for how in ("construct", "clone", "load"):
          events = []
          try:
              a = gen.rand_module(rnd, cl[t], spec, depth=1, in_project=False) if how != "construct" or rnd.random() < 0.5 else cl[t]()
              data = api.Synth(a).read()
              if how == "load":
                  a = api.read_sunvox_file(io.BytesIO(data)).module
              b = make(t, how, a, data)
              other = cl[rnd.choice(types_)]()      # an object of another type, constructed afterwards
              events = [heap_event("%s:%s" % (how, t), [("A", a), ("B", b), ("C", other)])]
              ctx.count_case(("heap", t, how), nontrivial=len(events[0]["roots"][0]["cells"]) >= 3)
              # value layer: mutate leaves of A, watch B (and the later-constructed C); then the reverse
              for (x, y, tag) in ((a, b, "A->B"), (b, a, "B->A")):
                  sx = api.Synth(x)
                  _, leaves = c06.catalogue(sx, spec, rnd)
                  bykind = {}
                  for lf in leaves:
                      bykind.setdefault(lf[0], []).append(lf)
                  chosen = [rnd.choice(v) for v in bykind.values()]
                  if not q:
                      rest = [lf for lf in leaves if lf not in chosen]
                      rnd.shuffle(rest)
                      chosen += rest[:40]
                  for kind, pth, fn, newv in chosen:
                      sb, bb, pj0 = digest(y, spec)
                      so, bo, pjo0 = digest(other, spec)
                      try:
                          fn(sx)
                      except Exception:
                          continue
                      sa, ba, pj1 = digest(y, spec)
                      so1, bo1, pjo1 = digest(other, spec)
                      fresh_ok = True
                      events.append({"op": "mutate", "kind": kind, "provenance": "%s %s %s" % (how, t, tag),
                                     "state_before": sb + so, "state_after": sa + so1, "bytes_before": bb + bo, "bytes_after": ba + bo1,
                                     "diff": first_diff(pj0, pj1) or first_diff(pjo0, pjo1)})
                      ctx.count_case(("mutate", t, how, tag, kind, json.dumps(pth)))
                  events.append(heap_event("mutations %s:%s %s" % (how, t, tag),
                                           [("A", a), ("B", b), ("C", other), ("fresh1", cl[t]()), ("fresh2", cl[t]())]))
              traces.append({"id": "%s/%s" % (t, how), "events": events})
          except Exception as e:
            raised("%s/%s!" % (t, how), "%s %s" % (how, t), e, events)
    # projects, patterns, links, notes
    for i in range(6 if q else 60):
        try:        # (building an object with in-range values works in isolation: a failure here comes from what ran before)
            pa = gen.rand_project(rnd, spec, depth=1, small=True, nmods=rnd.randrange(2, 5))
            data = pa.read()
        except Exception as e:
            raised("project%d!build" % i, "building an independent project", e, [])
            continue
        import copy as _copy
        for how in ("construct", "clone", "load", "deepcopy"):
            pb = (gen.rand_project(rnd, spec, depth=0, small=True) if how == "construct" else pa.clone() if how == "clone"
                  else _copy.deepcopy(pa) if how == "deepcopy" else api.read_sunvox_file(io.BytesIO(data)))
            events = [heap_event("project %s" % how, [("A", pa), ("B", pb)])]
            _, leaves = c06.catalogue(pa, spec, rnd)
            rnd.shuffle(leaves)
            for kind, pth, fn, newv in leaves[: (12 if q else 60)]:
                sb, bb, pj0 = digest(pb, spec)
                try:
                    fn(pa)
                except Exception:
                    continue
                sa, ba, pj1 = digest(pb, spec)
                events.append({"op": "mutate", "kind": kind, "provenance": "project %s" % how, "state_before": sb, "state_after": sa,
                               "bytes_before": bb, "bytes_after": ba, "diff": first_diff(pj0, pj1)})
                ctx.count_case(("mutate-project", i, how, kind, json.dumps(pth)))
            # link tables and attaching
            real = [m for m in pa.modules if m is not None]
            if len(real) >= 2:
                sb, bb, pj0 = digest(pb, spec)
                pa.connect(real[0], real[1:])
                pa.connect(~real[-1], real[0])
                pa.new_module(api.m.Amplifier)
                sa, ba, pj1 = digest(pb, spec)
                events.append({"op": "mutate", "kind": "links+attach", "provenance": "project %s" % how, "state_before": sb, "state_after": sa,
                               "bytes_before": bb, "bytes_after": ba, "diff": first_diff(pj0, pj1)})
            # refused cross-project requests must leave B exactly as it was - and A's objects out of B: afterwards A's
            # pattern is edited and B watched again
            from rv.errors import ModuleOwnershipError, PatternOwnershipError
            apat = api.Pattern(lines=2, tracks=2)
            pa.attach_pattern(apat)
            sb, bb, pj0 = digest(pb, spec)
            reqs = [lambda: pb.attach_pattern(apat), lambda: pb.attach_module(real[-1]) if real and real[-1].index else None,
                    lambda: pb.connect(real[-1], pb.output) if real and real[-1].index else None, lambda: pb.__iadd__(apat)]
            # disconnect requests that mix the two projects, for every pair that is linked under the same numbers in both
            for d in [m for m in pa.modules if m is not None]:
                for si in [x for x in d.in_links if x >= 0]:
                    s = pa.modules[si]
                    if s is None or d.index >= len(pb.modules) or si >= len(pb.modules) or pb.modules[d.index] is None or pb.modules[si] is None:
                        continue
                    bd, bs = pb.modules[d.index], pb.modules[si]
                    reqs += [lambda s=s, bd=bd: pa.connect(~s, bd), lambda s=s, bd=bd: pb.connect(~s, bd), lambda s=s, bd=bd: s >> ~bd,
                             lambda bs=bs, d=d: d << ~bs, lambda s=s, bd=bd: pa.connect([~s], [bd])]
            sa0 = digest(pa, spec)
            for req in reqs[:40]:
                try:
                    req()
                except Exception:
                    pass
            sa1 = digest(pa, spec)
            events.append({"op": "mutate", "kind": "refused-cross-project-requests:requesting-side", "provenance": "project %s" % how,
                           "state_before": sa0[0], "state_after": sa1[0], "bytes_before": sa0[1], "bytes_after": sa1[1], "diff": first_diff(sa0[2], sa1[2])})
            # a note CLONED from A's pattern and stored (plain cell assignment) in a pattern of B belongs to B's side only
            sa, ba, pj1 = digest(pb, spec)
            events.append({"op": "mutate", "kind": "refused-cross-project-requests:refusing-side", "provenance": "project %s" % how, "state_before": sb,
                           "state_after": sa, "bytes_before": bb, "bytes_after": ba, "diff": first_diff(pj0, pj1)})
            bpat = api.Pattern(lines=2, tracks=2)
            pb.attach_pattern(bpat)
            sb, bb, pj0 = digest(pb, spec)          # (taken again: B just got a pattern of its own)
            sA0 = digest(pa, spec)
            nclone = apat.data[1][1].clone()
            nclone.module = 2
            bpat.data[0][0] = nclone
            try:
                got = bpat.data[0][0].mod
                if got is not None and got.parent is pa and pa is not pb:
                    got.name = "reached through a cloned note"
            except Exception:
                pass
            bpat.data[0][0] = api.Note()
            sA1 = digest(pa, spec)
            events.append({"op": "mutate", "kind": "note-cloned-into-another-project", "provenance": "project %s" % how, "state_before": sA0[0],
                           "state_after": sA1[0], "bytes_before": sA0[1], "bytes_after": sA1[1], "diff": first_diff(sA0[2], sA1[2])})
            apat.data[0][0].vel = 77
            apat.set_via_fn(lambda p_, l_, t_: api.Note(module=2))
            sa, ba, pj1 = digest(pb, spec)
            events.append({"op": "mutate", "kind": "refused-cross-project-requests", "provenance": "project %s" % how, "state_before": sb,
                           "state_after": sa, "bytes_before": bb, "bytes_after": ba, "diff": first_diff(pj0, pj1)})
            ctx.count_case(("refused", i, how))
            events.append(heap_event("project mutations %s" % how, [("A", pa), ("B", pb)]))
            traces.append({"id": "project%d/%s" % (i, how), "events": events})
    # copies made through Python's copy protocols (copy.deepcopy, pickle) of a project whose MultiCtl drives an Amplifier and
    # whose MetaModule exposes an embedded controller: operations that work THROUGH a module's project (a MultiCtl feed, an
    # embedded controller heard by its MetaModule) on the copy leave the original alone, and the other way round
    import copy as _copy2
    import pickle as _pickle
    def driven_project():
        pj = api.Project()
        amp = pj.new_module(api.m.Amplifier)
        mc = api.m.MultiCtl.macro(pj, (amp, "volume"))
        mm = pj.new_module(api.m.MetaModule)
        ea = mm.project.new_module(api.m.Amplifier)
        mm.mappings.values[0].module, mm.mappings.values[0].controller = ea.index, 0
        mm.user_defined_controllers = 1
        mm.update_user_defined_controllers()
        return pj
    def drive(pj, v):
        mc = next(m_ for m_ in pj.modules if m_ is not None and m_.mtype == "MultiCtl")
        mc.value = v
        mm = next(m_ for m_ in pj.modules if m_ is not None and m_.mtype == "MetaModule")
        mm.project.modules[1].volume = v // 64
        mm.user_defined_1 = v // 128
    for how, cp in (("deepcopy", _copy2.deepcopy), ("pickle", lambda o: _pickle.loads(_pickle.dumps(o)))):
        try:
            pa = driven_project()
            pb = cp(pa)
        except Exception as e:
            if how == "pickle":
                continue            # (pickling is not promised; where it works the copy is independent)
            raised("copies/%s!" % how, "copy protocol " + how, e, [])
            continue
        events = [heap_event("project copied by " + how, [("A", pa), ("B", pb)])]
        for who, (x, y) in (("copy-driven", (pb, pa)), ("original-driven", (pa, pb))):
            sb, bb, pj0 = digest(y, spec)
            try:
                drive(x, 20000 if who == "copy-driven" else 9000)
            except Exception as e:
                raised("copies/%s!%s" % (how, who), "copy protocol " + how, e, events)
                break
            sa, ba, pj1 = digest(y, spec)
            events.append({"op": "mutate", "kind": who, "provenance": "project copied by " + how, "state_before": sb, "state_after": sa,
                           "bytes_before": bb, "bytes_after": ba, "diff": first_diff(pj0, pj1)})
            ctx.count_case(("copies", how, who), nontrivial=True)
        else:
            traces.append({"id": "copies/" + how, "events": events})
    # an attached MetaModule next to independently constructed neighbours: writing its user-defined controllers reaches the
    # EMBEDDED modules they are mapped to, never the modules at the same positions of the outer project
    simple = [api.m.Amplifier, api.m.Filter, api.m.Distortion, api.m.Reverb, api.m.Compressor]
    for i in range(4 if q else 40):
        for how in ("construct", "load", "clone"):
            pj = api.Project()
            nb = [pj.new_module(rnd.choice(simple)) for _ in range(3)]
            mm = api.m.MetaModule()
            emb = api.Project()
            em = [emb.new_module(type(x)) for x in nb]
            mm.project = emb
            emb.metamodule = mm
            for k, x in enumerate(em):
                mm.mappings.values[k].module = x.index
                mm.mappings.values[k].controller = 0
            mm.user_defined_controllers = 3
            mm.update_user_defined_controllers()
            pj.attach_module(mm)
            if how == "load":
                pj = api.read_sunvox_file(io.BytesIO(pj.read()))
            elif how == "clone":
                pj = pj.clone()
            nb, mm = pj.modules[1:4], pj.modules[4]
            events = []
            for k in range(3):
                name = list(type(nb[k]).controllers)[0]
                sb = [digest(x, spec) for x in nb]
                eb = int(getattr(mm.project.modules[k + 1], name))
                v = rnd.choice([v for v in (0, 1, 100, 200) if v != eb])
                try:
                    setattr(mm, "user_defined_%d" % (k + 1), v)
                except Exception as e:
                    raised("meta-neighbours%d/%s!" % (i, how), "metamodule write", e, events)
                    break
                sa = [digest(x, spec) for x in nb]
                reached = int(getattr(mm.project.modules[k + 1], name)) == v
                events.append({"op": "mutate", "kind": "metamodule-user-controller-write", "provenance": "attached MetaModule %s" % how,
                               "state_before": "".join(x[0] for x in sb) + "reached", "state_after": "".join(x[0] for x in sa) + ("reached" if reached else "embedded-target-not-reached"),
                               "bytes_before": "".join(x[1] for x in sb), "bytes_after": "".join(x[1] for x in sa),
                               "diff": next((d for d in (first_diff(x[2], y[2]) for x, y in zip(sb, sa)) if d), None) or ("" if reached else "embedded target keeps %d" % eb)})
                ctx.count_case(("meta-neighbours", i, how, k))
            else:
                # copies of the EMBEDDED project and of the MetaModule itself are independent of it in both directions
                try:
                    # (a MetaModule that hears its embedded modules: the library echoes a change of the controller whose NUMBER
                    # equals a mapping's controller field back into the MetaModule)
                    m2 = api.m.MetaModule()
                    for k in range(3):
                        am = m2.project.new_module(api.m.Amplifier)
                        m2.mappings.values[k].module, m2.mappings.values[k].controller = am.index, 1
                    m2.user_defined_controllers = 3
                    m2.update_user_defined_controllers()
                    if how == "load":
                        m2 = api.read_sunvox_file(io.BytesIO(api.Synth(m2).read())).module
                        m2.project.metamodule = m2
                    ec, mc2 = m2.project.clone(), m2.clone()
                    for tag, edit_in, watch in (("embedded-clone->original", ec, m2), ("original->embedded-clone", m2.project, ec),
                                                ("module-clone->original", mc2.project, m2), ("original->module-clone", m2.project, mc2)):
                        sb, bb, pj0 = digest(watch, spec)
                        for k in range(3):
                            cur = int(edit_in.modules[k + 1].volume)
                            edit_in.modules[k + 1].volume = rnd.choice([v for v in (0, 1, 77, 100) if v != cur])
                        sa, ba, pj1 = digest(watch, spec)
                        events.append({"op": "mutate", "kind": "embedded-project-copy:" + tag, "provenance": "MetaModule %s" % how,
                                       "state_before": sb, "state_after": sa, "bytes_before": bb, "bytes_after": ba, "diff": first_diff(pj0, pj1)})
                        ctx.count_case(("meta-copies", i, how, tag))
                except Exception as e:
                    raised("meta-neighbours%d/%s!copies" % (i, how), "metamodule copies", e, events)
                    continue
                traces.append({"id": "meta-neighbours%d/%s" % (i, how), "events": events})
    # every fixture loaded twice; other loads / constructions / clones / bulk pattern edits in between must not show in B
    for name, data in fmt.fixtures():
        out1, a = fmt.load(data)
        out2, b = fmt.load(data)
        if a is None or b is None:      # every fixture loads in isolation (C04): a failure here comes from earlier operations
            raised("fixture/%s!" % name, "fixture " + name, RuntimeError(out1 + "/" + out2), [])
            continue
        events = [heap_event("two loads of " + name, [("A", a), ("B", b)])]
        sb, bb, pj0 = digest(b, spec)
        out, c3 = fmt.load(data)
        try:
            a2 = a.clone()
        except Exception as e:
            raised("fixture/%s!clone" % name, "fixture " + name, e, events)
            continue
        if hasattr(a, "module") and a.module is not None:
            type(a.module)()
            a.module.clone()
        pat = api.Pattern(lines=2, tracks=2)
        pat.set_via_fn(lambda p_, l_, t_: api.Note(vel=3))
        try:
            pat.set_via_gen(lambda p_, new: (_ for _ in ()).throw(ValueError()))
        except ValueError:
            pass
        sa, ba, pj1 = digest(b, spec)
        events.append({"op": "mutate", "kind": "other-loads-clones-constructions", "provenance": "fixture " + name, "state_before": sb,
                       "state_after": sa, "bytes_before": bb, "bytes_after": ba, "diff": first_diff(pj0, pj1)})
        events.append(heap_event("after further loads of " + name, [("A", a), ("B", b), ("C", c3), ("D", a2)]))
        ctx.count_case(("fixture-twice", name))
        traces.append({"id": "fixture/" + name, "events": events})
    # loads that FAIL (unknown type, truncated file, missing file) leave independent objects as they were - also in what they
    # accept: an out-of-range assignment refused before is refused afterwards
    from rv.errors import ControllerValueError
    amp = api.m.Amplifier()
    events = []
    for k, bad in enumerate([b"SVOX\0\0\0\0SFFF\4\0\0\0\1\0\0\0STYP\3\0\0\0Zz\0", fmt.fixtures()[0][1][:40], "/nonexistent/c17.sunvox",
                             b"SSYN\0\0\0\0CVAL\2\0\0\0\1\0"]):
        sb, bb, pj0 = digest(amp, spec)
        try:
            api.read_sunvox_file(io.BytesIO(bad) if isinstance(bad, bytes) else bad)
        except Exception:
            pass
        for name, v in (("volume", 5000), ("balance", -129), ("volume", -1)):
            try:
                setattr(amp, name, v)
            except ControllerValueError:
                pass
            except Exception:
                pass
        sa, ba, pj1 = digest(amp, spec)
        events.append({"op": "mutate", "kind": "failed-load-then-refused-assignments", "provenance": "failed load %d" % k, "state_before": sb,
                       "state_after": sa, "bytes_before": bb, "bytes_after": ba, "diff": first_diff(pj0, pj1)})
        ctx.count_case(("failed-load", k))
    traces.append({"id": "failed-loads", "events": events})
    # read-only API surface must not change the object it is called on (nor class-level state)
    def pure(tid, o, calls):
        events = []
        for nm, fn in calls:
            sb, bb, pj0 = digest(o, spec)
            try:
                fn()
            except Exception:
                continue
            sa, ba, pj1 = digest(o, spec)
            events.append({"op": "mutate", "kind": "read-only:" + nm, "provenance": tid, "state_before": sb, "state_after": sa,
                           "bytes_before": bb, "bytes_after": ba, "diff": first_diff(pj0, pj1)})
            ctx.count_case(("pure", tid, nm))
        events.append(heap_event("read-only calls on " + tid, [("A", o)]))
        traces.append({"id": "pure/" + tid, "events": events})
    for t in types_:
        try:
            mod = gen.rand_module(rnd, cl[t], spec, depth=1, in_project=False)
        except Exception as e:
            raised("pure/%s!build" % t, "building an independent module", e, [])
            continue
        calls = [("repr", lambda: repr(mod)), ("clone", lambda: mod.clone()), ("Synth.read", lambda: api.Synth(mod).read()),
                 ("get_raw", lambda: [mod.get_raw(n) for n in type(mod).controllers if type(mod).controllers[n].attached(mod)]),
                 ("pattern_value", lambda: [c.pattern_value(mod, getattr(mod, n)) for n, c in type(mod).controllers.items()
                                            if isinstance(getattr(mod, n), int) and not isinstance(getattr(mod, n), bool)]),
                 ("int(visualization)", lambda: int(mod.visualization)), ("dir", lambda: dir(mod))]
        pure(t, mod, calls)
    for i in range(3 if q else 30):
        try:
            pj = gen.rand_project(rnd, spec, depth=1, small=True, nmods=rnd.randrange(2, 5))
        except Exception as e:
            raised("pure/project%d!build" % i, "building an independent project", e, [])
            continue
        pats = [x for x in pj.patterns if isinstance(x, api.Pattern)]
        calls = [("read", lambda: pj.read()), ("clone", lambda: pj.clone()),
                 ("pattern_lines", lambda: list(pj.pattern_lines(0, 8)) if pats and all(x is not None for x in pj.patterns) else None),
                 ("tabular_repr", lambda: [x.tabular_repr() for x in pats]),
                 ("note-accessors", lambda: [(str(n), n.is_empty(), n.clone(), n.module_index, n.controller, n.effect, n.val_xx, n.val_yy, n.mod)
                                             for x in pats for line in x.data for n in line]),
                 ("module_index", lambda: [pj.module_index(m) for m in pj.modules if m is not None]),
                 ("int(module)", lambda: [int(m) for m in pj.modules if m is not None])]
        pure("project%d" % i, pj, calls)
        # layout(): moves modules only (x, y); everything else is framed
        before = projection.project_any(pj, spec)
        try:
            pj.layout()
            after = projection.project_any(pj, spec)
            for a_, b_ in zip(before["modules"], after["modules"]):
                if a_["kind"] == "module":
                    b_["x"], b_["y"] = a_["x"], a_["y"]
            same = json.dumps(before, sort_keys=True) == json.dumps(after, sort_keys=True)
            traces.append({"id": "layout/project%d" % i, "events": [{"op": "mutate", "kind": "layout-frame", "provenance": "layout()", "state_before": "x",
                           "state_after": "x" if same else "changed", "bytes_before": "", "bytes_after": "", "diff": first_diff(before, after)}]})
        except Exception:
            pass
    cans = []
    c = json.loads(json.dumps(traces[0]))
    c["id"] = "canary-shared-cell"
    c["events"] = c["events"][:1]
    c["events"][0]["roots"][1]["cells"].append(c["events"][0]["roots"][0]["cells"][0])
    traces.append(c)
    cans.append(c["id"])
    c = json.loads(json.dumps(traces[0]))
    c["id"] = "canary-class-cell"
    c["events"] = c["events"][:1]
    c["events"][0]["roots"][0]["cells"].append(c["events"][0]["classcells"][0])
    traces.append(c)
    cans.append(c["id"])
    mt = next(t for t in traces if any(e["op"] == "mutate" for e in t["events"]))
    c = json.loads(json.dumps(mt))
    c["id"] = "canary-state-changed"
    c["events"] = [e for e in c["events"] if e["op"] == "mutate"][:1]
    c["events"][0]["state_after"] = "x" + c["events"][0]["state_after"]
    traces.append(c)
    cans.append(c["id"])
    inv = {v: k for k, v in rn.m.items()}
    traces[-2:-2] = late_traces(ctx, api, spec, recipes, recipes_before, digest, first_diff)

    def where(tr, m):
        if m.get("op") == "heap":
            return "%s %s shared=%s" % (tr["id"], m.get("clause"), [labels.get(inv.get(x), "?") for x in (m.get("got") or [])][:4])
        e = tr["events"][m["l"] - 1]
        return "%s %s diff=%s" % (tr["id"], e.get("provenance"), e.get("diff"))
    h0 = traces[0]["events"][0]
    ctx.sample({"op": "heap", "after": h0["after"], "cells_per_root": {r["name"]: len(r["cells"]) for r in h0["roots"]}, "class_cells": len(h0["classcells"]),
                "some_class_cells": sorted(v for v in labels.values() if v.startswith("class:"))[:8]})
    ctx.sample(next(e for e in traces[0]["events"] if e["op"] == "mutate"))
    trace.validate(ctx, "Trace_RVIsolation", traces, "c17_isolation", canaries=cans, where=where)
    ctx.exhaustive = False

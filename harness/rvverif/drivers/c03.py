"""C03 - written files conform to the documented SunVox chunk format."""
import json

from .. import fmt, gen, specdata

EVIDENCE = dict(
    level="model_checking",
    rule="RVFormat!Write is the independent encoder (written from the format document and the YAML, code-only extensions "
         "named). For every generated project and synth (same generators as C01/C02, plus MetaModule- and Sampler-heavy "
         "ones, synths wrapped around modules that are attached to a project, and objects that were loaded and then edited) the real bytes are TLV-split by the harness and TLC checks chunk by chunk bytes = Write(public state) - "
         "every differing chunk is reported with its id, CHNM and module - and evaluates each structural rule separately "
         "(header first, PEND/SEND termination, SNAM 32 bytes, PDTA = lines*tracks*8, CVAL count, CMID 8 per value, CHNM "
         "< CHNK, record sizes). MC_RVFormat checks Struct(Write(s)) on the bounded model. non-trivial = at least 2 modules."
         " Deterministic boundary objects are written too; value lists of the wrong length in fixed-size array blocks must be refused or written at the documented size (structural rule array-block-not-documented-size from RVFormat!ArrayBytes).",
    explanation="every serialized object of the run is checked, not a sample of golden files")


def run(ctx):
    import rv.api as api
    rnd = ctx.rnd
    q = ctx.quick
    path, spec = specdata.write(ctx)
    fmt.mc_format(ctx, path, spec, 6 if q else 24, maxdepth=1 if q else 2, timeout=3000 if q else 9000)
    cl = gen.classes()
    traces = []

    def add(name, obj, may_refuse=False):
        try:
            data = obj.read()
        except Exception:
            if not may_refuse:
                raise
            ctx.count_case((name, "refused"), nontrivial=True)      # no file written: nothing to conform
            return
        ev = {"op": "save", "obj": fmt.projection.project_any(obj, spec), "chunks": fmt.tlv.to_json_nested(data)}
        traces.append({"id": name, "events": [ev]})
        nm = len(ev["obj"].get("modules", [])) if ev["obj"]["kind"] == "project" else 1
        ctx.count_case((name, len(data), hash(data)), nontrivial=nm >= 2 or ev["obj"]["kind"] == "synth")
        ctx.cov["bytes_checked"] = ctx.cov.get("bytes_checked", 0) + len(data)
    for i in range(100 if q else 2000):
        p = gen.rand_project(rnd, spec, depth=rnd.choice([0, 1, 2]))
        add("p%d" % i, p)
        real = [m for m in p.modules[1:] if m is not None]
        if real and i % 4 == 0:      # a synth file written for a module that lives (linked) in a project
            add("p%d.synth-of-attached" % i, api.Synth(rnd.choice(real)))
    for k in range(1 if q else 3):           # scale: 256+ modules and patterns, 100+ links on one module, a 16+ track pattern
        add("large%d" % k, gen.large_project(rnd, spec))
    for t in sorted(cl):
        if fmt.projection.payload(cl[t](), spec)["k"] in ("arrays", "multictl", "wave", "fmx"):
            # a FRESH module whose array payloads (documented defaults so far) are edited element by element
            fm = cl[t]()
            fmt.edit_in_place(api.Synth(fm), spec, rnd, 8)
            add("%s#fresh-edited" % t, api.Synth(fm))
        for k in range(2 if q else 30):
            add("%s#%d" % (t, k), api.Synth(gen.rand_module(rnd, cl[t], spec, depth=1, in_project=False)))
    for nm, obj in gen.boundary_sources(spec):      # deterministic boundary values
        add(nm, obj)
    # value lists of the wrong length in the fixed-size array blocks: the writer refuses, or writes the documented size
    for t, attr in (("WaveShaper", "curve"), ("MultiSynth", "nv_curve"), ("MultiSynth", "vv_curve"), ("MultiSynth", "np_curve"),
                    ("MultiCtl", "curve"), ("SpectraVoice", "harmonic_volumes"), ("SpectraVoice", "harmonic_freqs"), ("FMX", "custom_waveform")):
        for delta in (-1, 1):
            mod = cl[t]()
            arr = getattr(mod, attr)
            arr.values = list(arr.values)[:-1] if delta < 0 else list(arr.values) + [arr.values[0]]
            if attr == "np_curve" or t == "FMX":
                arr.values[0] = arr.values[0] + 1 if t != "FMX" else 0.5          # (these blocks are written only when not default)
            add("%s.%s%+d" % (t, attr, delta), api.Synth(mod), may_refuse=True)
    for i in range(20 if q else 300):
        hp = gen.rand_project(rnd, spec, depth=2, types=["MetaModule", "Sampler", "MultiSynth", "Analog generator"], nmods=4)
        add("heavy%d" % i, hp)
        # what a LOADED and then edited object writes must be the encoding of its current state too (nothing kept from the load)
        if i % 2 == 0:
            out, lq = fmt.load(hp.read())
            if lq is not None:
                fmt.edit_in_place(lq, spec, rnd, 5)
                add("heavy%d.loaded-edited" % i, lq)
    for k in range(6 if q else 80):
        sm = gen.rand_module(rnd, cl["Sampler"], spec, depth=1, in_project=False)
        out, lq = fmt.load(api.Synth(sm).read())
        if lq is not None:
            fmt.edit_in_place(lq, spec, rnd, 4)
            add("sampler%d.loaded-edited" % k, lq)
            add("sampler%d.clone-edited" % k, api.Synth(lq.module.clone()))
    # error path: a synth without a module refuses to serialize - and has written nothing by then (write_to into a sink)
    for how in ("write_to", "read"):
        buf = []
        class Sink:
            def write(self, b):
                buf.append(bytes(b))
        try:
            if how == "write_to":
                api.Synth().write_to(Sink())
            else:
                buf.append(api.Synth().read())
            out = "ok"
        except api.Synth.__init__.__globals__["EmptySynthError"]:
            out = "EmptySynthError"
        except Exception as e:
            out = "exception:" + type(e).__name__
        traces.append({"id": "empty-synth-" + how, "events": [{"op": "emptysynth", "outcome": out, "written": sum(len(b) for b in buf)}]})
    cans = []
    def canary(name, mut):
        c = json.loads(json.dumps(traces[len(cans) * 3]))
        c["id"] = "canary-" + name
        mut(c["events"][0])
        traces.append(c)
        cans.append(c["id"])
    canary("byte", lambda e: [c for c in e["chunks"] if c["data"]][5]["data"].__setitem__(0, ([c for c in e["chunks"] if c["data"]][5]["data"][0] + 1) % 256))
    canary("drop-send", lambda e: e["chunks"].pop())
    canary("swap", lambda e: e["chunks"].__setitem__(slice(3, 5), e["chunks"][4:2:-1]))
    canary("snam", lambda e: [c for c in e["chunks"] if c["id"] == "SNAM"][0]["data"].pop())
    ev0 = traces[0]["events"][0]
    ctx.sample({"id": traces[0]["id"], "first_chunks": [{"id": c["id"], "data": c["data"][:8]} for c in ev0["chunks"][:6]], "n_chunks": len(ev0["chunks"])})
    fmt.validate(ctx, traces, "c03_written", cans, path)
    ctx.exhaustive = False

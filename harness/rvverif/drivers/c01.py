"""C01 - project save/load round trip preserves the whole project."""
import json

from .. import fmt, gen, specdata

EVIDENCE = dict(
    level="model_checking",
    rule="Seeded generator builds real projects through the public API (all 42 attachable types, controllers at "
         "boundary/random in-range values under every unit, options, links incl. freed slots, patterns/clones/empty "
         "slots, note cells over all NOTECMD members, project fields over their widths, Unicode names straddling byte 32, "
         "type-specific payloads, nested MetaModules, samplers). Each is saved, loaded with the real reader, both objects "
         "are projected and TLC (Trace_RVFormat) checks: loaded = Norm(original) field by field; loaded = Read(bytes) with "
         "the spec's own decoder; and Container.clone() the same way. Every sixth project continues as a history on the same "
         "objects (save, edit in place through the C06 leaf catalogue, save again, load, edit the loaded project, save), each "
         "save judged as its own round trip. distinct_nontrivial = projects with at least two "
         "modules or a pattern, distinct by content hash."
         " Deterministic boundary objects (gen.boundary_sources: one Sample object in three slots, slots 0/126/127, waveform -128, an icon under no_icon, module-only lines, empty names, self links) are round-tripped as well.",
    explanation="reference evaluation: RVFormat!Norm / Read are evaluated by TLC on every generated project; states/"
                "transitions are those of the batch trace validation (one initial state per trace)")


def run(ctx):
    rnd = ctx.rnd
    q = ctx.quick
    path, spec = specdata.write(ctx)
    fmt.mc_format(ctx, path, spec, 6 if q else 24, maxdepth=1 if q else 2, timeout=3000 if q else 9000)
    traces = []
    chain_kinds = {}
    n = 120 if q else 2500
    for i in range(n):
        depth = rnd.choice([0, 1, 1, 2])
        p = gen.rand_project(rnd, spec, depth=depth, nmods=rnd.choice([None, None, 12, 24]) if not q else None)
        ev = fmt.roundtrip_event(p, spec, w=False)
        traces.append({"id": "p%d" % i, "events": [ev]})
        ctx.count_case(json.dumps(ev["orig"], sort_keys=True), nontrivial=len(ev["orig"]["modules"]) > 1 or len(ev["orig"]["patterns"]) > 0)
        if i % 10 == 0:
            traces.append({"id": "p%d.clone" % i, "events": [fmt.container_clone_event(p, spec)]})
        if i % 6 == 1:          # history: save, edit in place, save, load, edit the loaded project, save
            evs, kinds = fmt.chain_events(p, spec, rnd)
            traces.append({"id": "p%d.chain" % i, "events": evs[1:]})
            for k in kinds:
                chain_kinds[k] = chain_kinds.get(k, 0) + 1
    # scale: one project with more than 256 modules / patterns, 100+ links on one module, a 16+ track pattern of hundreds of lines
    for k in range(1 if q else 4):
        lp = gen.large_project(rnd, spec)
        ev = fmt.roundtrip_event(lp, spec, w=False)
        traces.append({"id": "large%d" % k, "events": [ev]})
        ctx.count_case(("large", k, len(ev["chunks"])), nontrivial=True)
    for tr in fmt.boundary_traces(spec, kinds=("project",), w=False):      # deterministic boundary values
        traces.append(tr)
        ctx.count_case((tr["id"],), nontrivial=True)
    cans = []
    for k, tr in enumerate(traces[:3]):
        c = {"id": "canary%d" % k, "events": [fmt.corrupt_first_int(tr["events"][0])]}
        traces.append(c)
        cans.append(c["id"])
    ev0 = traces[1]["events"][0]
    ctx.sample({"op": "roundtrip", "orig_proj": ev0["orig"]["proj"], "modules": [m.get("mtype", "none") for m in ev0["orig"]["modules"]],
                "n_chunks": len(ev0["chunks"]), "outcome": ev0["outcome"]})
    ctx.cov["chain_edit_kinds"] = dict(sorted(chain_kinds.items()))
    fmt.validate(ctx, traces, "c01_roundtrip", cans, path)
    ctx.exhaustive = False

"""C13 - generated module metadata agrees with the YAML format specification."""
import json

from .. import meta, specdata, trace

EVIDENCE = dict(
    level="translation_validation",
    rule="one Register event per class found in rv.modules.MODULE_CLASSES at import time, carrying the metadata "
         "projected from cls.controllers / cls.options / class attributes; Trace_RVRegistry compares it clause by "
         "clause with specdata.json (extracted from the YAML by an independent PyYAML walk) and requires that "
         "exactly the specified types are registered; a second trace is taken after the classes were used (every unit, lenient "
         "out-of-range values, fixtures, type names in other spellings, MetaModules mirroring controllers, 300 embedded positions, "
         "128 stored mappings). Each compared field is one evaluation; a case is "
         "non-trivial when the field is not a default/empty value."
         " The use phase also loads newer-version files: enumeration values the specification does not list, more stored controller values than the type has controllers.",
    explanation="a static, exhaustive comparison (43 types x all controller and option fields) carried out by TLC "
                "over the spec's data; programs = generated classes judged against their YAML source")


def run(ctx):
    path, spec = specdata.write(ctx)
    reg = meta.registry()
    events = [{"mtype": k, "meta": v} for k, v in reg.items()]
    traces = [{"id": "registry", "events": events}]
    # class-level metadata must still equal the specification after the classes have been used (instances constructed with
    # every unit, every fixture loaded, modules cloned, files naming types in other spellings offered to the reader, MetaModules mirroring
    # embedded controllers: a second Register trace is taken afterwards
    import io
    import rv.api as api
    import rv.modules
    from .. import fmt
    for t, st in spec.items():
        cls = rv.modules.MODULE_CLASSES.get(t)
        if cls is None or t == "Output":
            continue
        m = cls()
        for c in st["ctls"]:
            if c["kind"] == "dep":
                for u, lo, hi in c["ranges"]:
                    setattr(m, st["ctls"][c["dep"] - 1]["name"], u)
                    setattr(m, c["name"], hi)
                    m.get_raw(c["name"])
                    cls.controllers[c["name"]].pattern_value(m, hi)
        try:
            m.clone()
        except Exception:
            pass
        # values beyond the nominal ranges, as a lenient load lets them through (assigned, read back, written, loaded)
        from rv.errors import override_raise_controller_value_errors
        for c in st["ctls"]:
            if c["kind"] in ("dep", "range"):
                units = [u for u, _, _ in c["ranges"]] if c["kind"] == "dep" else [None]
                for u in units[:6]:
                    try:
                        m2 = cls()
                        if u is not None:
                            setattr(m2, st["ctls"][c["dep"] - 1]["name"], u)
                        hi = next((b for uu, a, b in c["ranges"] if uu == u), c["max"]) if c["kind"] == "dep" else c["max"]
                        with override_raise_controller_value_errors(False):
                            setattr(m2, c["name"], hi + 1000)
                            m2.get_raw(c["name"])
                            fmt.load(api.Synth(m2).read())
                    except Exception:
                        pass
    for name, data in fmt.fixtures():
        fmt.load(data)
    # files naming a type in another spelling, or an unknown type (loading may refuse them; the registry must not learn them)
    from .. import tlv
    nvar = 0
    for t in spec:
        cls = rv.modules.MODULE_CLASSES.get(t)
        if cls is None or t == "Output":
            continue
        try:
            chunks = tlv.split(api.Synth(cls()).read())
        except Exception:
            continue
        for alt in sorted({t.lower(), t.upper(), t.title(), t.swapcase(), t + " ", " " + t, t.replace(" ", ""), t + "2"} - {t}):
            fmt.load(tlv.join([(cid, alt.encode() + b"\0" if cid == b"STYP" else pl) for cid, pl in chunks]))
            nvar += 1
    ctx.cov["type_name_variants_loaded"] = nvar
    # files as a NEWER SunVox might write them: an enumeration value the specification does not list, more stored controller
    # values than the type has controllers (loading may refuse or drop them; the classes must not learn them)
    import struct
    nnew = 0
    for t, st in spec.items():
        cls = rv.modules.MODULE_CLASSES.get(t)
        if cls is None or t == "Output":
            continue
        try:
            chunks = tlv.split(api.Synth(cls()).read())
        except Exception:
            continue
        cv = [j for j, (cid, _) in enumerate(chunks) if cid == b"CVAL"]
        for k, c in enumerate(st["ctls"]):
            if c["kind"] == "enum" and k < len(cv):
                for bad in (max(m_[1] for m_ in c["members"]) + 1, 255):
                    ed = list(chunks)
                    ed[cv[k]] = (b"CVAL", struct.pack("<i", bad))
                    fmt.load(tlv.join(ed))
                    nnew += 1
        if cv:
            for extra in (1, 3):
                ed = chunks[:cv[-1] + 1] + [(b"CVAL", struct.pack("<i", 7))] * extra + chunks[cv[-1] + 1:]
                fmt.load(tlv.join(ed))
                pj = api.Project()
                pj.attach_module(cls())
                pc = tlv.split(pj.read())
                last = max(j for j, (cid, _) in enumerate(pc) if cid == b"CVAL")
                fmt.load(tlv.join(pc[:last + 1] + [(b"CVAL", struct.pack("<i", 7))] * extra + pc[last + 1:]))
                nnew += 2
    ctx.cov["newer_version_files_loaded"] = nnew
    # MetaModules whose user-defined controllers mirror controllers of embedded modules (built, saved, loaded, cloned)
    from .. import gen
    for k in range(10):
        try:
            mm = (gen.rand_module(ctx.rnd, rv.modules.MODULE_CLASSES["MetaModule"], spec, depth=1, in_project=False) if k < 6
                  else gen.meta_negmin(ctx.rnd, spec) if k < 8 else gen.chain_meta(ctx.rnd, spec))
            fmt.load(api.Synth(mm).read())
            mm.clone()
        except Exception:
            pass
    # scale: a MetaModule around a project of more than 256 positions, one with more than 96 stored mappings (saved, loaded, cloned)
    try:
        big = api.m.MetaModule()
        for _ in range(300):
            big.project.new_module(api.m.Amplifier)
        fmt.load(api.Synth(big).read())
        big.clone()
        wide = api.m.MetaModule()
        wide.mappings.length = 128
        while len(wide.mappings.values) < 128:
            wide.mappings.values.append(type(wide).Mapping((0, 0)))
        fmt.load(api.Synth(wide).read())
    except Exception:
        pass
    reg2 = meta.registry()
    traces.append({"id": "registry-after-use", "events": [{"mtype": k, "meta": v} for k, v in reg2.items()]})
    nfields = 0
    for k, v in reg.items():
        for c in v["ctls"]:
            for f, x in c.items():
                ctx.count_case((k, "ctl", c["name"], f, json.dumps(x)), nontrivial=x not in (0, [], "", [0, 0]))
                nfields += 1
        for o in v["opts"]:
            for f, x in o.items():
                ctx.count_case((k, "opt", o["name"], f, json.dumps(x)), nontrivial=x not in (0, [], "", False))
                nfields += 1
    # canaries: each a copy of the registry with one realistic divergence
    def canary(name, fn):
        c = json.loads(json.dumps(traces[0]))
        c["id"] = "registry#canary-" + name
        fn({e["mtype"]: e["meta"] for e in c["events"]}, c)
        traces.append(c)
        return c["id"]
    cans = []
    cans.append(canary("range-max", lambda r, c: r["Amplifier"]["ctls"][0].__setitem__("max", r["Amplifier"]["ctls"][0]["max"] + 1)))
    cans.append(canary("swap-controllers", lambda r, c: r["Filter"]["ctls"].__setitem__(slice(0, 2), r["Filter"]["ctls"][1::-1])))
    cans.append(canary("option-bit", lambda r, c: r["MultiSynth"]["opts"][0].__setitem__("bit", (r["MultiSynth"]["opts"][0]["bit"] + 1) % 8)))
    cans.append(canary("option-bounds", lambda r, c: r["MetaModule"]["opts"][[o["name"] for o in r["MetaModule"]["opts"]].index("user_defined_controllers")].__setitem__("hasmm", False)))
    cans.append(canary("default", lambda r, c: r["Echo"]["ctls"][1].__setitem__("default", r["Echo"]["ctls"][1]["default"] + 1)))
    cans.append(canary("missing-class", lambda r, c: c["events"].pop()))
    cans.append(canary("enum-member", lambda r, c: [x for x in r["LFO"]["ctls"] if x["kind"] == "enum"][0]["members"][0].__setitem__(1, 99)))
    cans.append(canary("flags", lambda r, c: r["Reverb"].__setitem__("flags", r["Reverb"]["flags"] ^ 0x10)))
    cans.append(canary("extra-attached", lambda r, c: r["Sampler"]["ctls"][-1].__setitem__("attached", True)))
    res = trace.validate(ctx, "Trace_RVRegistry", traces, "c13_registry", canaries=cans, workers=4,
                         env={"RV_SPECDATA": path}, extra_cfg="INVARIANT SpecSaneInv\n")
    ctx.sample({"register_event": {"mtype": "Amplifier", "meta": reg["Amplifier"]}})
    ctx.exhaustive = True
    ctx.cov["programs"] = len(reg)
    ctx.cov["disagreements_checked"] = nfields
    ctx.cov["spec_types"] = len(spec)
    ctx.cov["spec_controllers"] = sum(len(t["ctls"]) for t in spec.values())
    ctx.cov["spec_options"] = sum(len(t["opts"]) for t in spec.values())

"""C18 - loading restores global strictness and releases files on every exit path."""
import glob
import io
import json
import os
import pathlib
import signal

from .. import tlc, tlv, trace
from ..common import REPO, MachineryError

EVIDENCE = dict(
    level="model_checking",
    rule="MC_RVLoad explores every schedule of nested loads (depth <= 3), reads and a fault at any point for both "
         "initial values of the setting and both ways of opening, with invariants Restored and LenientInside. Real "
         "read_sunvox_file calls are made on every fixture (and generated nested MetaModule / sampler-effect files) "
         "through a counting stream or a wrapped Path.open: an OSError is raised at individual read/seek/tell indices, "
         "the data is truncated at chunk boundaries and sampled offsets, chunk payloads are shortened/corrupted at each "
         "chunk position (also inside embedded containers), for both initial values; the setting is logged at every "
         "stream call, at nested load entry/exit (observed by wrapping the names the library calls, from the check) "
         "and at return/raise together with the closed state; Trace_RVLoad validates the trace. "
         "Also: a path naming a pipe (non-seekable stream), warnings turned into errors, sources that really carry out-of-range "
         "values, nested loads started through the public load_chunk entry points. "
         "non-trivial = the load raises or involves a nested load."
         " The setting is also held as 1, 0, 2, 'strict' and '' (truth value restored)."
         " After loads of files that carry out-of-range values the same values are assigned (attribute, keyword) to fresh objects: a strict session refuses them all (op strict_use).",
    explanation="fault_sequences: one fault per run at each enumerated position")


class Injected(OSError):
    pass


class Abort(BaseException):
    """Raised by the stream / a watchdog timer when a (corrupted) input makes the reader loop without end: like an
    interrupt, it is one more exit path on which the setting must be restored."""


MAX_CALLS = 20000


class FaultStream:
    """A binary stream over bytes that counts read/seek/tell calls, logs the strictness setting at each call,
    and raises at the fail_at-th call."""

    def __init__(self, data, log, fail_at=None, pipe=False):
        self._pipe = pipe               # what opening a named pipe gives: readable, not seekable
        self._f = io.BytesIO(data)
        self._log = log
        self._n = 0
        self._fail_at = fail_at
        self.closed = False

    def _tick(self, kind):
        import rv.errors
        self._n += 1
        flag = bool(rv.errors.RAISE_CONTROLLER_VALUE_ERRORS)
        last = self._log[-1] if self._log else None
        if last is not None and last.get("op") == "io" and last["flag"] == flag:
            last["count"] += 1              # run-length form: consecutive stream calls observing the same value
        else:
            self._log.append({"op": "io", "call": kind, "n": self._n, "flag": flag, "count": 1})
        if self._n > MAX_CALLS:
            raise Abort("reader does not terminate")
        if self._fail_at is not None and self._n == self._fail_at:
            raise Injected("injected fault at call %d" % self._n)

    def read(self, n=-1):
        self._tick("read")
        return self._f.read(n)

    def peek(self, n=0):              # (what Path.open("rb") returns is a BufferedReader: it can be peeked and read into)
        self._tick("peek")
        pos = self._f.tell()
        b = self._f.read(n if n and n > 0 else 4096)
        self._f.seek(pos)
        return b

    def readinto(self, buf):
        self._tick("readinto")
        return self._f.readinto(buf)

    def readable(self):
        return True

    def seekable(self):
        return not self._pipe

    def seek(self, pos, whence=0):
        self._tick("seek")
        if self._pipe:
            raise io.UnsupportedOperation("underlying stream is not seekable")
        return self._f.seek(pos, whence)

    def tell(self):
        self._tick("tell")
        if self._pipe:
            raise io.UnsupportedOperation("underlying stream is not seekable")
        return self._f.tell()

    def close(self):
        self.closed = True

    def __enter__(self):
        return self

    def __exit__(self, *a):
        self.close()


def install_nested_observers(log):
    """Wrap the names through which the library starts nested loads (embedded project, sampler effect)."""
    import rv.errors
    import rv.modules.metamodule as mm
    import rv.modules.sampler as sp
    saved = []
    for mod in (mm, sp):
        orig = getattr(mod, "read_sunvox_file", None)
        if orig is None:
            continue

        def wrapper(f, _orig=orig):
            log.append({"op": "nested_enter", "flag_before": bool(rv.errors.RAISE_CONTROLLER_VALUE_ERRORS)})
            try:
                return _orig(f)
            finally:
                log.append({"op": "nested_exit", "flag_after": bool(rv.errors.RAISE_CONTROLLER_VALUE_ERRORS)})
        saved.append((mod, orig))
        mod.read_sunvox_file = wrapper
    return saved


def remove_nested_observers(saved):
    for mod, orig in saved:
        mod.read_sunvox_file = orig


def strict_use_event(loaded):
    """The out-of-range controller values found in what was just loaded, assigned (attribute and constructor keyword) to FRESH
    stand-alone objects of the same types under the setting as it is now; counts the assignments that were accepted."""
    from rv.controller import Range
    from rv.errors import ControllerValueError
    mods, stack = [], [loaded]
    while stack:
        o = stack.pop()
        if hasattr(o, "modules"):
            stack += [m for m in o.modules if m is not None]
        elif hasattr(o, "module") and not hasattr(o, "controllers"):
            stack.append(o.module)
        elif o is not None:
            mods.append(o)
            if hasattr(o, "project") and o.mtype == "MetaModule":
                stack.append(o.project)
    probes = accepted = 0
    for mod in mods[:40]:
        for name, c in type(mod).controllers.items():
            if name.startswith("user_defined") or (mod.mtype == "SpectraVoice" and name.startswith("h_")):
                continue
            try:
                v = mod.controller_values.get(name)
                t = c.instance_value_type(type(mod)())
            except Exception:
                continue
            if not isinstance(t, Range) or type(t) is not Range or not isinstance(v, int) or isinstance(v, bool) or t.min <= v <= t.max:
                continue
            for how in ("attr", "kw"):
                probes += 1
                try:
                    if how == "attr":
                        setattr(type(mod)(), name, v)
                    else:
                        type(mod)(**{name: v})
                    accepted += 1
                except ControllerValueError:
                    pass
                except Exception:
                    pass
    return {"op": "strict_use", "probes": probes, "accepted": accepted}


def one_load(api, tid, data, flag0, kind, fail_at=None, open_fails=None, pipe=False, warn_error=False, probe_strict=False):
    """open_fails: None | "missing" | "directory" | "denied" - the library's own open of the path fails before any read."""
    import rv.errors
    log = []
    st = {}
    raw0 = flag0                 # the object the session keeps in the setting (any truthy / falsy value works as a setting)
    flag0 = bool(flag0)
    rv.errors.RAISE_CONTROLLER_VALUE_ERRORS = raw0
    saved = install_nested_observers(log)
    orig_open = pathlib.Path.open
    try:
        log.append({"op": "enter", "kind": kind})
        if kind == "path" and open_fails in ("missing", "directory"):
            target = "/nonexistent/verif-c18-%s.sunvox" % tid.__hash__() if open_fails == "missing" else os.path.dirname(os.path.abspath(__file__))
            arg = target if tid.__hash__() % 2 else pathlib.Path(target)
        elif kind == "path":
            def fake_open(self, *a, **k):
                if open_fails == "denied":
                    raise PermissionError("injected: open refused")
                st["stream"] = FaultStream(data, log, fail_at, pipe=pipe)
                return st["stream"]
            pathlib.Path.open = fake_open
            arg = "/nonexistent/verif-c18.sunvox" if tid.__hash__() % 2 else pathlib.Path("/nonexistent/verif-c18.sunvox")
        else:
            st["stream"] = FaultStream(data, log, fail_at)
            arg = st["stream"]
        def on_alarm(signum, frame):
            raise Abort("load does not terminate in time (corrupted input)")
        old_handler = signal.signal(signal.SIGALRM, on_alarm)
        signal.setitimer(signal.ITIMER_REAL, 1.5)
        import warnings
        try:
            with warnings.catch_warnings():
                if warn_error:                  # the caller's process turns warnings into errors (python -W error, pytest filterwarnings)
                    warnings.simplefilter("error")
                st["loaded"] = api.read_sunvox_file(arg)
            end = {"op": "return", "exc": ""}
        except BaseException as e:
            end = {"op": "raise", "exc": type(e).__name__}
        finally:
            signal.setitimer(signal.ITIMER_REAL, 0)
            signal.signal(signal.SIGALRM, old_handler)
        end["flag"] = bool(rv.errors.RAISE_CONTROLLER_VALUE_ERRORS)         # (strict or lenient: the truth value is what matters)
        end["closed"] = bool(st["stream"].closed) if "stream" in st else True
        log.append(end)
        if probe_strict and st.get("loaded") is not None:
            log.append(strict_use_event(st["loaded"]))
    finally:
        pathlib.Path.open = orig_open
        remove_nested_observers(saved)
        rv.errors.RAISE_CONTROLLER_VALUE_ERRORS = True
    return {"id": tid, "flag0": flag0, "events": log}


def corruptions(data, rnd, per_file, deep=True):
    """Variants of a file: truncation at chunk boundaries / offsets, shortened or garbled payload per chunk position,
    also inside embedded containers (payloads that are themselves chunk streams)."""
    out = []
    chunks = tlv.split(data, strict=False)
    offs = [0]
    for cid, p in chunks:
        offs.append(offs[-1] + 8 + len(p))
    bidx = list(range(1, len(chunks)))
    rnd.shuffle(bidx)
    for i in bidx[:per_file]:
        out.append(("trunc@chunk%d" % i, data[:offs[i]]))
    for _ in range(max(2, per_file // 3)):
        o = rnd.randrange(1, len(data))
        out.append(("trunc@byte%d" % o, data[:o]))
    idx = list(range(len(chunks)))
    rnd.shuffle(idx)
    for i in idx[:per_file]:
        cid, p = chunks[i]
        mode = rnd.choice(["short", "garble", "type"])
        if mode == "short" and len(p) > 0:
            q = p[:max(0, len(p) - rnd.choice([1, 2, 3]))]
        elif mode == "type" or cid in (b"STYP",):
            q = b"NoSuchModuleType\0" if cid == b"STYP" else bytes(rnd.randrange(256) for _ in range(len(p)))
        else:
            q = bytes(rnd.randrange(256) for _ in range(len(p)))
        out.append(("%s@chunk%d:%s" % (mode, i, cid.decode("latin1")), tlv.join(chunks[:i] + [(cid, q)] + chunks[i + 1:])))
    if deep:
        for i, (cid, p) in enumerate(chunks):
            if cid == b"CHDT" and p[:4] in (b"SVOX", b"SSYN") and len(p) > 16:
                for name, inner in corruptions(p, rnd, max(3, per_file // 2), deep=True)[:per_file]:
                    out.append(("nested[%d]:%s" % (i, name), tlv.join(chunks[:i] + [(cid, inner)] + chunks[i + 1:])))
    return out


def run(ctx):
    import rv.api as api
    rnd = ctx.rnd
    q = ctx.quick
    cfg = ("CONSTANTS MaxDepth = 3 MaxReads = %d\nSPECIFICATION Spec\nINVARIANT RestoredInv\nINVARIANT LenientInv\n"
           "INVARIANT DoneMeansEmpty\nCHECK_DEADLOCK FALSE\n" % (3 if q else 5))
    res = tlc.run("MC_RVLoad", cfg, ctx.work, workers=8, timeout=900, name="mc_load")
    if res.invariant_violated:
        ctx.violation("model:" + res.invariant_violated, "MC_RVLoad", res.counterexample[:2000])
    ctx.add_mc("mc_load", res, "nesting <= 3, fault at any point, both initial values")
    files = sorted(f for f in glob.glob(os.path.join(REPO, "tests", "files", "**", "*"), recursive=True)
                   if f.endswith((".sunvox", ".sunsynth")))
    datas = [(os.path.basename(f), open(f, "rb").read()) for f in files]
    # generated nested files: MetaModule in MetaModule in project; sampler with an effect
    p = api.Project()
    inner = api.m.MetaModule()
    inner.project.new_module(api.m.Generator)
    outer = api.m.MetaModule()
    outer.project.attach_module(inner)
    p.attach_module(outer)
    p.new_module(api.m.Amplifier, balance=-5)
    datas.append(("gen-nested-depth3.sunvox", p.read()))
    traces = []

    def add(name, data, flag0, kind, fail_at=None, pipe=False, warn_error=False):
        t = one_load(api, "%s|%s%s%s|%s|%s|%d" % (name, kind, "-pipe" if pipe else "", "-Werror" if warn_error else "", flag0, fail_at, len(traces)),
                     data, flag0, kind, fail_at, pipe=pipe, warn_error=warn_error, probe_strict=name.endswith(":beyond-range"))
        traces.append(t)
        raised = t["events"][-1]["op"] == "raise"
        nested = any(e["op"] == "nested_enter" for e in t["events"])
        ctx.count_case((name, kind, flag0, fail_at, len(data), hash(data)), nontrivial=raised or nested)
        return t
    # files that carry controller values beyond the nominal ranges (the lenient branch of the reader is really taken),
    # also with warnings turned into errors
    from .. import fmt, specdata
    _, spec = specdata.write(ctx)
    oor = []
    for name, data in datas:
        if name in ("amplifier.sunsynth", "metamodule.sunsynth", "gen-nested-depth3.sunvox", "echo.sunsynth"):
            base_ = tlv.to_json_nested(data)
            for sec, _c in fmt.ranged_cval_sections(base_, spec)[:2]:
                oor.append((name + ":beyond-range", tlv.from_json_nested(fmt.out_of_range_variant(base_, sec, rnd))))
    for name, data in oor:
        for flag0 in (True, False):
            for kind in ("stream", "path"):
                add(name, data, flag0, kind)
                add(name, data, flag0, kind, warn_error=True)
    # the setting held as a truthy / falsy value that is not a bool (e.g. int(os.environ[...])): restored as it was
    for name, data in (datas[:4] + oor[:2]) if q else (datas + oor):
        for raw0 in (1, 0, 2, "strict", ""):
            for kind in ("stream", "path"):
                add(name, data, raw0, kind)
            add(name, data[:max(8, len(data) // 2)], raw0, "stream")          # ... also when the load fails
    for name, data in datas[:: (6 if q else 1)]:
        for flag0 in (True, False):
            add(name, data, flag0, "path", pipe=True)        # a path that names a pipe
            add(name, data, flag0, "stream", warn_error=True)
    for name, data in datas:
        # fault-free, both initial values, both ways of opening
        base = None
        for flag0 in (True, False):
            for kind in ("stream", "path"):
                base = add(name, data, flag0, kind)
        ncalls = sum(e["count"] for e in base["events"] if e["op"] == "io")
        # an I/O error at individual call indices
        ks = list(range(1, ncalls + 1))
        lim = 8 if q else 150
        if len(ks) > lim:
            rnd.shuffle(ks)
            ks = sorted(set(ks[:lim] + [1, ncalls]))
        for k in ks:
            add(name, data, rnd.choice([True, True, False]), "path" if k % 2 else "stream", fail_at=k)
        # truncation / corruption at chunk positions, also inside embedded containers
        for cname, cdata in corruptions(data, rnd, 4 if q else 25):
            add(name + ":" + cname, cdata, rnd.choice([True, True, False]), rnd.choice(["path", "stream"]))
    # the library's own open of the path fails (missing file, a directory, permission): still an exit path of the load
    for k, of in enumerate(["missing", "directory", "denied"] * (2 if q else 6)):
        for flag0 in (True, False):
            t = one_load(api, "open-%s|%s|%d" % (of, flag0, len(traces)), b"", flag0, "path", open_fails=of)
            traces.append(t)
            ctx.count_case(("open-fails", of, flag0, k), nontrivial=True)
    # nested loads started through the PUBLIC load_chunk() entry points (an embedded project handed to a MetaModule, an effect
    # handed to a Sampler) - outside any read_sunvox_file call: the setting is as before when load_chunk returns or raises
    import rv.errors
    from rv.modules import Chunk as _Chunk
    good_proj = api.Project()
    good_proj.new_module(api.m.Amplifier)
    good_synth = api.Synth(api.m.Filter()).read()
    blobs = [("project", good_proj.read()), ("project-truncated", good_proj.read()[:60]), ("unknown-type", b"SVOX\0\0\0\0SFFF\4\0\0\0\1\0\0\0STYP\3\0\0\0Zz\0"),
             ("synth", good_synth), ("synth-truncated", good_synth[:50]), ("empty", b""), ("junk", b"not a chunk stream at all")]
    for cname, chnm, cls_ in (("MetaModule", 0, api.m.MetaModule), ("Sampler", 0x10A, api.m.Sampler)):
        for bname, blob in blobs:
            for flag0 in (True, False):
                log = []
                rv.errors.RAISE_CONTROLLER_VALUE_ERRORS = flag0
                saved = []          # (the load the chunk starts is the outermost one here: judged as a plain load)
                try:
                    log.append({"op": "enter", "kind": "stream"})
                    ch = _Chunk()
                    ch.chnm, ch.chdt, ch.chff, ch.chfr = chnm, blob, 0, 0
                    try:
                        cls_().load_chunk(ch)
                        end = {"op": "return", "exc": ""}
                    except BaseException as e:
                        end = {"op": "raise", "exc": type(e).__name__}
                    end["flag"] = bool(rv.errors.RAISE_CONTROLLER_VALUE_ERRORS)
                    end["closed"] = True
                    log.append(end)
                finally:
                    remove_nested_observers(saved)
                    rv.errors.RAISE_CONTROLLER_VALUE_ERRORS = True
                traces.append({"id": "load_chunk|%s|%s|%s|%d" % (cname, bname, flag0, len(traces)), "flag0": flag0, "events": log})
                ctx.count_case(("load_chunk", cname, bname, flag0), nontrivial=True)
    sanity = []          # judged after the traces: a library that fails every load is reported as such, not as a machinery failure
    if not any(t["events"][0]["kind"] == "path" and any(e["op"] == "io" for e in t["events"]) for t in traces):
        sanity.append("no path-opened load reached the wrapped Path.open (the library opens files differently now?)")
    if not any(e["op"] == "nested_enter" for t in traces for e in t["events"]):
        sanity.append("no nested load was observed")
    cans = []
    def canary(name, pred, mut):
        src = next(t for t in traces if pred(t))
        c = json.loads(json.dumps(src))
        c["id"] = "canary-" + name
        mut(c)
        traces.append(c)
        cans.append(c["id"])
    canary("not-restored", lambda t: t["flag0"] and t["events"][-1]["op"] == "raise", lambda c: c["events"][-1].__setitem__("flag", False))
    canary("not-closed", lambda t: t["events"][0]["kind"] == "path" and t["events"][-1]["op"] == "raise", lambda c: c["events"][-1].__setitem__("closed", False))
    canary("strict-inside", lambda t: any(e["op"] == "io" for e in t["events"]), lambda c: [e for e in c["events"] if e["op"] == "io"][-1].__setitem__("flag", True))
    canary("nested-restores-wrong", lambda t: any(e["op"] == "nested_exit" for e in t["events"]),
           lambda c: [e for e in c["events"] if e["op"] == "nested_exit"][0].__setitem__("flag_after", True))
    s = next(t for t in traces if any(e["op"] == "nested_enter" for e in t["events"]) and t["events"][-1]["op"] == "raise")
    ctx.sample({"id": s["id"], "flag0": s["flag0"], "events_head": s["events"][:3], "events_tail": s["events"][-4:], "n": len(s["events"])})
    ctx.cov["raised"] = sum(1 for t in traces if t["events"][-1]["op"] == "raise")
    ctx.cov["with_nested_load"] = sum(1 for t in traces if any(e["op"] == "nested_enter" for e in t["events"]))
    trace.validate(ctx, "Trace_RVLoad", traces, "c18_load", canaries=cans, where=lambda tr, m: tr["id"][:160], timeout=3000)
    if sanity and not ctx.violations:
        raise MachineryError("; ".join(sanity))
    ctx.exhaustive = False

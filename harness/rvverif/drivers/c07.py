"""C07 - connecting and disconnecting keep the link tables mutually consistent."""
from .. import links, trace

EVIDENCE = dict(
    level="model_checking",
    rule="mode A: every transition TLC explores in MC_RVLinks (pairs: exhaustive; list operands: all or a "
         "hash-selected sample) is executed on a real Project put into the pre state and compared with the "
         "spec's allowed posts; non-trivial = the request changes the tables or is refused. mode B: random "
         "histories on real mixed-type projects validated event by event by Trace_RVLinks (Consistent "
         "evaluated on every real state); every fourth history passes through save+load and pure saves and continues; a "
         "262-module history, a history of 300 connect/disconnect cycles as single events (Cycles), repeated requests between "
         "positions above 256, the Output as the only source."
         " Operands carry ~ applied up to three times (~~m is m)."
         " MC_RVSystem focus clones (Module.clone() of attached, linked modules attached and linked again) is simulated and replayed; every third save+load runs with the library's loggers at DEBUG.",
    explanation="TLC checks Consistent, EdgesAsRequested and the save/load invariants on every reachable state "
                "of the bounded model; the real Project.connect / >> / << / ~ are bound by graph replay and by "
                "trace validation.")


def apalache_inductive(ctx):
    """Supplementary, not load-bearing: Consistent as an inductive invariant of connect/disconnect (Apalache, symbolic),
    for tables of any length up to the Gen bound instead of TLC's state constraint.  Recorded in the evidence only."""
    import os
    import subprocess
    import time
    spec = os.path.join(os.path.dirname(links.tlc.SPEC_DIR), "spec", "apalache", "APA_RVLinks.tla")
    t0 = time.time()
    try:
        p = subprocess.run(["apalache-mc", "check", "--init=IndInit", "--inv=IndInv", "--length=1",
                            "--out-dir=" + os.path.join(ctx.work, "apalache"), spec],
                           stdout=subprocess.PIPE, stderr=subprocess.STDOUT, text=True, timeout=1200, cwd=ctx.work)
        ok = "EXITCODE: OK" in p.stdout
        note = "inductive step IndInit /\\ Next => IndInv' checked" if ok else p.stdout[-300:]
    except Exception as e:       # tool missing / timeout: nothing is claimed
        ok, note = False, "not run: %r" % (e,)
    ctx.cov["apalache_inductive_consistent"] = {"ok": ok, "wall_s": round(time.time() - t0, 1), "note": note,
                                                "claim": "supplementary; TLC's exhaustive model is the claimed check"}


def run(ctx):
    rnd = ctx.rnd
    q = ctx.quick
    # ---- mode A: exhaustive pair model, every transition replayed
    links.graph_replay(ctx, 3, 2, "pairs", 3 if q else 1, ["ConsistentNow"], "C07", coverage=not q)
    # ---- list operands, operators, foreign modules
    if q:
        links.graph_replay(ctx, 3, 1, "lists", 2, ["ConsistentNow"], "C07")
    else:
        links.graph_replay(ctx, 3, 2, "lists", 24, ["ConsistentNow"], "C07", timeout=3000)      # 58.6 M transitions explored, 1/24 replayed
        links.graph_replay(ctx, 4, 1, "pairs", 2, ["ConsistentNow", "RTCanonical", "RTNever"], "C07", timeout=3000)
    if not q:
        apalache_inductive(ctx)
    # ---- mode B: random histories, batch trace validation
    classes = links.simple_classes()
    traces = []
    nt, ln = (150, 60) if q else (1500, 120)
    for t in range(nt):
        n = rnd.randrange(2, 11)
        # every fourth history also passes through save + load now and then: the requests continue on the loaded project
        if t == 5:          # scale: more than 256 modules
            n = 262
        traces.append(links.random_history(ctx, rnd, "h%d" % t, n, rnd.randrange(ln // 2, ln + 1), classes,
                                           p_save=0.06 if t % 4 == 3 else 0.0, variants=("canonical", "always"),
                                           trailing=rnd.choice([0, 0, 1, 2]) if t % 4 == 3 else 0))
    traces.append(links.long_history(ctx, rnd, "h-long", 300 if q else 1200))
    traces.append(links.high_index_history(ctx, rnd, "h-high"))
    traces.append(links.output_source_history(ctx, rnd, "h-output-source"))                     # scale in space: repeated requests between positions above 256      # scale in time: hundreds of freed slots on one module
    canaries = []
    for tr in traces[:5]:
        c = links.corrupt(tr, rnd)
        if c:
            traces.append(c)
            canaries.append(c["id"])
    for tr in traces[:nt]:
        for e in tr["events"]:
            ctx.count_case((tr["id"], len(e["post"]["inl"]), repr(e)), nontrivial=True)
    ctx.sample({"mode": "B", "trace": traces[0]["id"], "n": traces[0]["n"], "first_events": traces[0]["events"][:3]})
    trace.validate(ctx, "Trace_RVLinks", traces, "c07_hist", canaries=canaries)
    # modules that enter a project as CLONES of linked modules (Module.clone() of an attached module is a free module without
    # links; attached, it is linked only by later requests): the composed workspace model, focus "clones", simulated and replayed
    from .. import system
    system.simulate_and_replay(ctx, 150 if q else 3000, 12 if q else 18, nm=6, np_=1, focus="clones")
    ctx.exhaustive = False

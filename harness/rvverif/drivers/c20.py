"""C20 - MultiCtl fan-out stays within each target's range and is monotone."""
import json
import multiprocessing as mp

from .. import specdata, tlc, trace
from ..ctl import val

EVIDENCE = dict(
    level="model_checking",
    rule="MC_RVMultiCtl checks InRange and the Monotone action property for the intended conversion over the complete "
         "input axis 0..32768 on a grid of gains, windows and spans. On real projects: MultiCtl.macro for every "
         "(type, controller) target, multi-target macros, and the refusal cases; for parameter tuples (target, gain, "
         "quantization, window, curve) incl. the corner values, MultiCtl.value is set to all 32769 inputs and the value "
         "arriving at the target is recorded in run-length form (plus whether any other controller of the target "
         "changed); links whose mapping names no controller are fed too. Trace_RVMultiCtl checks outcome, range and "
         "monotonicity. Windows of compact-range targets are expressed in target steps (0..span), as the library's own "
         "macro helper and tests do (wider windows: only the range clause). Fan-outs are also fed after the project went "
         "through a file, with targets that have other inputs, and after an unrelated failed load. MC_RVSystem (focus multictl) "
         "is simulated and its behaviours (attach, connect / disconnect the MultiCtl, set mappings, save+load, feed) are replayed "
         "on real objects: a feed reaches exactly the live out slots whose mapping names a controller. non-trivial = a feed that delivers more than one distinct value, or a refusal."
         " Macros with targets named in reversed / rotated order (link i goes with mapping i); each feed job re-feeds six inputs after writing the target by hand (clause same-input-fed-again-after-a-hand-write-not-delivered)."
         " Feed jobs include MetaModule user-defined controllers (mapped onto an embedded 0..32768 controller) as targets.",
    explanation="value axis enumerated completely for each sampled parameter tuple")

GAINS = [0, 1, 100, 255, 256, 257, 333, 512, 1024]
QUANTS = [0, 1, 2, 3, 7, 100, 32767, 32768]


def _feed(args):
    (t, cname, gain, quant, wmin, wmax, curve, unmapped, seed, wide) = args
    from ..common import setup_repo_path
    setup_repo_path()
    import io
    import rv.api as api
    import rv.modules
    cls = rv.modules.MODULE_CLASSES[t]
    if seed % 3 == 0:          # an unrelated load failed earlier in this process
        try:
            api.read_sunvox_file(io.BytesIO(b"SVOX\0\0\0\0SFFF\4\0\0\0\1\0\0\0STYP\3\0\0\0Zz\0"))
        except Exception:
            pass
    label = ["Lead", "Pad", "Bass", "x"][seed % 4]       # user-editable labels repeat across modules of different types
    if seed % 2 == 0:          # earlier in this process: a module of ANOTHER type with the same label was driven through the same controller number
        wcls = api.m.Amplifier if t != "Amplifier" else api.m.Filter
        wp = api.Project()
        wm = wp.new_module(wcls)
        wm.name = label
        wmc = wp.new_module(api.m.MultiCtl)
        wmc >> wm
        wmc.mappings.values[0].controller = min(cls.controllers[cname].number, len(wcls.controllers))
        try:
            for i_ in range(257):           # ... and that MultiCtl had a triangle drawn into its curve, in place
                wmc.curve.values[i_] = 32768 - abs(128 - i_) * 256
            wmc.value = 16384
        except Exception:
            pass
    if seed % 5 == 1 and t != "MetaModule":
        # composition: the MultiCtl and its target live in the embedded project of an API-built MetaModule that exposes
        # the very same target controller as a user-defined controller
        holder = api.m.MetaModule()
        p = holder.project
        target = p.new_module(cls)
        holder.mappings.values[0].module = target.index
        holder.mappings.values[0].controller = cls.controllers[cname].number - 1
        holder.user_defined_controllers = 1
        try:
            holder.update_user_defined_controllers()
        except Exception:
            pass
    else:
        p = api.Project()
        target = p.new_module(cls)
    chained = (seed % 7 == 3)
    if t == "MetaModule" and cname.startswith("user_defined_"):
        # the target is a user-defined controller an API-built MetaModule exposes (declared 0..32768 like every user-defined
        # controller), mapped onto a 0..32768 controller of an embedded module; the ranges are not re-derived
        k_ = int(cname.rsplit("_", 1)[1])
        ea = target.project.new_module(api.m.Amplifier)
        target.mappings.values[k_ - 1].module, target.mappings.values[k_ - 1].controller = ea.index, 6        # fine_volume
        target.user_defined_controllers = k_
    target.name = label
    mc = p.new_module(api.m.MultiCtl)
    ctl = cls.controllers[cname]
    if chained:       # composition: this MultiCtl drives the `value` controller of a second one, which drives the target
        relay = p.new_module(api.m.MultiCtl)
        relay >> target
        relay.mappings.values[0].controller = 0 if unmapped else ctl.number
        relay.mappings.values[0].min, relay.mappings.values[0].max = wmin, wmax
        mc >> relay
        mc.mappings.values[0].controller = 1        # the relay's first controller: value (0..32768)
        mc.mappings.values[0].min, mc.mappings.values[0].max = 0, 32768
    else:
        mc >> target
    mp_ = mc.mappings.values[0] if not chained else api.m.MultiCtl().mappings.values[0]
    mp_.min, mp_.max = wmin, wmax
    mp_.controller = 0 if unmapped else ctl.number
    mc.gain = gain
    mc.quantization = quant
    out_offset = 0
    if seed % 3 == 2:           # (the OUT offset controller is set as well: whatever it does, delivered values stay in range and monotone)
        try:
            mc.out_offset = out_offset = [100, -100, 16384, -16384, 1][seed % 5]
        except Exception:
            out_offset = 0
    if curve is not None:
        mc.curve.values = list(curve)
    names = list(cls.controllers)
    before = {n: val(getattr(target, n)) for n in names}
    initial = before[cname]
    rle = []
    outcome, bad = "ok", -1
    for v in range(32769):
        try:
            mc.value = v
        except Exception as e:
            outcome, bad = "exception:" + type(e).__name__, v
            if not wide:
                break
        d = val(getattr(target, cname))
        if rle and rle[-1][0] == d:
            rle[-1][1] += 1
        else:
            rle.append([d, 1])
    others = all(val(getattr(target, n)) == before[n] for n in names if n != cname)
    vt = ctl.value_type
    # the same input fed again after the target was written by hand in between (a user's tweak): delivered again
    rew = []
    if outcome == "ok" and not unmapped and not wide and type(vt).__name__ == "Range":
        try:
            for v in (0, 8192, 16384, 32768, 16384, 0):
                mc.value = v
                d1 = val(getattr(target, cname))
                setattr(target, cname, vt.min if d1 != vt.min else vt.max)
                mc.value = v
                rew.append([v, d1, val(getattr(target, cname))])
        except Exception:
            rew.append([-1, 0, -777777])
    return {"op": "feed", "rew": rew, "t": t, "ctl": cname, "lo": vt.min, "hi": vt.max, "gain": gain, "quant": quant, "wmin": wmin, "wmax": wmax,
            "curve": "default" if curve is None else "custom", "unmapped": unmapped, "chained": bool(chained), "initial": initial, "rle": rle,
            "outcome": outcome, "bad_input": bad, "others_unchanged": bool(others), "wide": bool(wide), "out_offset": out_offset,
            "kind": "range" if type(vt).__name__ == "Range" else type(vt).__name__}


def _feed_multi(args):
    """One MultiCtl fanning out to several targets, some links unmapped (also BEFORE mapped ones)."""
    (targets, gain, quant, seed, reload) = args       # targets: [(type, ctl name, wmin, wmax, unmapped)]
    from ..common import setup_repo_path
    setup_repo_path()
    import io
    import random
    import rv.api as api
    import rv.modules
    rnd = random.Random(seed)
    p = api.Project()
    mods = [p.new_module(rv.modules.MODULE_CLASSES[t]) for t, _, _, _, _ in targets]
    for j, m in enumerate(mods):
        m.name = ["Lead", "Pad", "Lead", "x"][(seed + j) % 4]
    src = p.new_module(api.m.Generator)
    for i, m in enumerate(mods):        # some targets already have another input: the MultiCtl's link lands in a later in-slot
        if (seed % 4 == 1 and i == len(mods) - 1) or (seed % 4 != 1 and rnd.random() < 0.4):     # (seed % 4 == 1: the last target only)
            src >> m
    mc = p.new_module(api.m.MultiCtl)
    mc >> mods
    mc.gain, mc.quantization = gain, quant
    for i, (t, cname, wmin, wmax, unmapped) in enumerate(targets):
        mp_ = mc.mappings.values[i]
        mp_.min, mp_.max = wmin, wmax
        mp_.controller = 0 if unmapped else type(mods[i]).controllers[cname].number
    if reload:                          # the fan-out must be the same after the project went through a file
        p = api.read_sunvox_file(io.BytesIO(p.read()))
        mods = [p.modules[m.index] for m in mods]
        mc = p.modules[mc.index]
    before = [{n: val(getattr(m, n)) for n in type(m).controllers} for m in mods]
    rles = [[] for _ in mods]
    outcome, bad = "ok", -1
    for v in range(0, 32769):
        try:
            mc.value = v
        except Exception as e:
            outcome, bad = "exception:" + type(e).__name__, v
            break
        for i, (t, cname, _, _, _) in enumerate(targets):
            d = val(getattr(mods[i], cname))
            if rles[i] and rles[i][-1][0] == d:
                rles[i][-1][1] += 1
            else:
                rles[i].append([d, 1])
    out = []
    for i, (t, cname, wmin, wmax, unmapped) in enumerate(targets):
        vt = type(mods[i]).controllers[cname].value_type
        others = all(val(getattr(mods[i], n)) == before[i][n] for n in before[i] if n != cname)
        out.append({"op": "feed", "t": t, "ctl": cname, "lo": vt.min, "hi": vt.max, "gain": gain, "quant": quant, "wmin": wmin, "wmax": wmax,
                    "curve": "default", "unmapped": unmapped, "initial": before[i][cname], "rle": rles[i], "outcome": outcome, "bad_input": bad,
                    "others_unchanged": bool(others), "wide": False, "out_offset": 0, "kind": "range" if type(vt).__name__ == "Range" else type(vt).__name__,
                    "fanout": "%d targets, link %d%s" % (len(targets), i, ", reloaded" if reload else "")})
    return out


def run(ctx):
    import rv.api as api
    import rv.modules
    from rv.controller import CompactRange, Range
    from rv.errors import MappingError
    rnd = ctx.rnd
    q = ctx.quick
    path, spec = specdata.write(ctx)
    cfg = ("CONSTANTS Gains = %s Wins = %s Spans = %s\nSPECIFICATION Spec\nINVARIANT InRange\nPROPERTY Monotone\nCHECK_DEADLOCK FALSE\n" % (
        ("{0, 100, 256, 1024}", "{0, 5000, 32768}", "{1, 256, 32768}") if q else
        ("{0, 1, 100, 255, 256, 257, 333, 512, 1024}", "{0, 5000, 16384, 25000, 32768}", "{1, 2, 255, 256, 1000, 32768}")))
    res = tlc.run("MC_RVMultiCtl", cfg, ctx.work, workers=16, timeout=3000, name="mc_multictl")
    if res.invariant_violated or res.property_violated:
        ctx.violation("model:" + str(res.invariant_violated or res.property_violated), "MC_RVMultiCtl", res.counterexample[:2000])
    ctx.add_mc("mc_multictl", res, "ConvertExact over the complete input axis for the grid")
    # the composed workspace model, concentrated on the MultiCtl: attach / connect and disconnect the MultiCtl / mappings /
    # save+load / feed - simulated behaviours replayed through the public API (mapping i belongs to out slot i; a freed slot
    # reaches nobody)
    from .. import system
    system.simulate_and_replay(ctx, 200 if q else 5000, 14 if q else 22, focus="multictl")
    system.graph_replay(ctx, q, emitk=4 if q else 1, focus="multictl")
    classes = dict(rv.modules.MODULE_CLASSES)
    events = []
    # ---- macro: every (type, controller) target
    ranged = []
    for t, st in sorted(spec.items()):
        cls = classes[t]
        for i, c in enumerate(st["ctls"], 1):
            name = c["name"]          # the attribute name the YAML declares (robust against a reordered class)
            if c["kind"] in ("range", "compact", "nooffset"):
                ranged.append((t, name, c))

            def do_macro(pairs_fn):
                p = api.Project()
                mods = []
                pairs = pairs_fn(p, mods)
                nb = len(p.modules)
                init = [None, 0, 32768, 0][len(events) % 4]
                try:
                    mc = api.m.MultiCtl.macro(p, *pairs) if init is None else api.m.MultiCtl.macro(p, *pairs, initial=init)
                    out = "ok"
                except MappingError:
                    mc, out = None, "MappingError"
                except Exception as e:
                    mc, out = None, "exception:" + type(e).__name__
                # expected controller number = position in the YAML's controller list (not the class's own numbering)
                tg = [{"mod": m.index, "num": 1 + [c2["name"] for c2 in spec[m.mtype]["ctls"]].index(cc)} for m, cc in pairs]
                ok_links = True
                if mc is not None:
                    for k, tm in enumerate(mc.out_links):
                        tgt = p.modules[tm]
                        ok_links = ok_links and mc.index in tgt.in_links and tgt.in_link_slots[tgt.in_links.index(mc.index)] == k \
                            and mc.out_link_slots[k] == tgt.in_links.index(mc.index)
                # what `initial=` delivered to the first target (ranged kinds, default window: the ends of its range)
                t0, c0 = pairs[0]
                c0s = next(c2 for c2 in spec[t0.mtype]["ctls"] if c2["name"] == c0)
                deliv = []
                if init is not None and mc is not None and c0s["kind"] == "range":
                    found = val(getattr(t0, c0))
                    try:                        # the same input fed again through the finished MultiCtl
                        mc.value = 1 if init == 0 else 0
                        mc.value = init
                        refed = val(getattr(t0, c0))
                    except Exception:
                        refed = -777777
                    deliv = [[init, found, refed, 0]]
                return {"op": "macro", "targets": tg, "outcome": out, "created": mc is not None, "initial": deliv,
                        "attached": mc is not None and mc.parent is p and p.modules[mc.index] is mc,
                        "out_links": list(mc.out_links) if mc is not None else [],
                        "mapctl": [int(x.controller) for x in mc.mappings.values] if mc is not None else [],
                        "links_consistent": bool(ok_links), "nmods_before": nb, "nmods_after": len(p.modules)}
            if cls is not classes.get("Output"):
                events.append(do_macro(lambda p, mods, cls=cls, name=name: [(p.new_module(cls), name)]))
                ctx.count_case(("macro", t, name))
    # multi-target macros and refusals
    simple = [classes[k] for k in ("Amplifier", "Filter", "Generator", "Echo", "LFO", "Reverb", "Flanger", "Delay")]
    for n in (2, 3, 8, 16, 17, 20):
        def many(p, mods, n=n):
            out = []
            for k in range(n):
                cl = simple[k % len(simple)]
                m = p.new_module(cl)
                out.append((m, rnd.choice(spec[cl.mtype]["ctls"])["name"]))
            return out
        events.append(do_macro(many))
        ctx.count_case(("macro-many", n))
    # ... targets named in an order other than the order of their modules in the project (link i goes with mapping i)
    for n in (2, 3, 5, 16):
        for order in ("reversed", "rotated"):
            def unordered(p, mods, n=n, order=order):
                out = []
                for k in range(n):
                    cl = simple[k % len(simple)]
                    out.append((p.new_module(cl), spec[cl.mtype]["ctls"][k % 2]["name"]))
                return out[::-1] if order == "reversed" else out[1:] + out[:1]
            events.append(do_macro(unordered))
            ctx.count_case(("macro-unordered", n, order))
    for dup_at in (1, 2, 5):
        def dup(p, mods, dup_at=dup_at):
            out = []
            for k in range(dup_at + 1):
                cl = simple[k % len(simple)]
                out.append((p.new_module(cl), spec[cl.mtype]["ctls"][0]["name"]))
            m0, _ = out[rnd.randrange(len(out))]
            out.append((m0, spec[m0.mtype]["ctls"][1]["name"]))
            rnd.shuffle(out)
            return out
        events.append(do_macro(dup))
        ctx.count_case(("macro-dup", dup_at))
    # ---- feed: parameter tuples x the complete input axis
    jobs = []
    corners = [(0, 32768), (32768, 0), (5000, 25000), (25000, 5000), (12345, 12345), (0, 0), (32768, 32768), (1, 2)]
    ntuples = 40 if q else 1500

    def window_for(c):
        span = c["max"] - c["min"]
        if c["kind"] == "compact":      # windows of compact targets are in target steps
            pool = [(0, span), (span, 0), (span // 2, span // 2), (0, 1), (span // 4, 3 * span // 4), (3 * span // 4, span // 4)]
            if rnd.random() < 0.5:
                return rnd.choice(pool)
            return (rnd.randrange(span + 1), rnd.randrange(span + 1))
        if rnd.random() < 0.6:
            return rnd.choice(corners)
        return (rnd.randrange(32769), rnd.randrange(32769))

    def curve():
        r = rnd.random()
        if r < 0.55:
            return None
        pts, cur = [], 0
        style = rnd.choice(["steps", "random", "flat", "steep"])
        for k in range(257):
            if style == "steps":
                cur = min(32768, (k // 16) * 2048)
            elif style == "flat":
                cur = 777
            elif style == "steep":
                cur = 0 if k < 128 else 32768
            else:
                cur = min(32768, cur + rnd.choice([0, 0, 1, 5, 128, 300]))
            pts.append(cur)
        return pts
    pri = [x for x in ranged if x[2]["kind"] == "nooffset"] + [x for x in ranged if x[2]["min"] > 0] + [x for x in ranged if x[2]["min"] < 0] + [x for x in ranged if x[2]["kind"] == "compact"]
    for k in range(ntuples):
        t, name, c = (pri[k % len(pri)] if k < ntuples // 2 else rnd.choice(ranged))
        gain = rnd.choice(GAINS) if rnd.random() < 0.7 else rnd.randrange(1025)
        quant = rnd.choice(QUANTS) if rnd.random() < 0.7 else rnd.randrange(32769)
        wmin, wmax = window_for(c)
        cv = curve()
        if k % 4 == 0:          # the plain case: unity gain, no quantization, linear curve, full window
            gain, quant, cv = 256, 32768, None
            wmin, wmax = corners[(k // 4) % 2] if c["kind"] != "compact" else (wmin, wmax)
        jobs.append((t, name, gain, quant, wmin, wmax, cv, k % 10 == 9, ctx.seed + k, False))
    # the plain case in both orientations for every ranged controller whose range does not start at 0 (rounding at the ends)
    for k, (t, name, c) in enumerate([x for x in ranged if x[2]["min"] != 0 and x[2]["kind"] == "range"]):
        for wmin, wmax in corners[:2]:
            jobs.append((t, name, rnd.choice([256, 256, 512, 1024]), 32768, wmin, wmax, None, False, ctx.seed + 1000 + 2 * k, False))
    # targets that are user-defined controllers of a MetaModule (0..32768)
    for k, (wmin, wmax) in enumerate(corners[:4]):
        jobs.append(("MetaModule", "user_defined_%d" % (1 + k % 2), [256, 256, 1024, 100][k], 32768, wmin, wmax, None, False, 6 * (ctx.seed + k) + 4, False))
    # compact-range targets under windows wider than their span (outside the helper's domain: only the range clause is
    # judged - the library may refuse a delivery, it must never store a value outside the declared range)
    compact = [x for x in ranged if x[2]["kind"] == "compact"]
    for k in range(6 if q else 60):
        t, name, c = compact[k % len(compact)]
        wmin, wmax = rnd.choice([(0, 32768), (32768, 0), (0, 2 * (c["max"] - c["min"])), (1000, 300)])
        jobs.append((t, name, rnd.choice([256, 256, 1024, 100]), rnd.choice([32768, 0, 7]), wmin, wmax, None, False, ctx.seed + k, True))
    for k in range(6 if q else 30):      # compact-range targets inside their domain, with the OUT offset set (seed % 3 == 2)
        t, name, c = compact[k % len(compact)]
        span = c["max"] - c["min"]
        wmin, wmax = [(0, span), (span, 0), (span // 4, span)][k % 3]
        jobs.append((t, name, 256, 32768, wmin, wmax, None, False, 3 * (ctx.seed + k) + 2, False))
    # fan-out to 2-4 targets (distinct modules), with unmapped links at any position
    mjobs = []
    plain = [x for x in ranged if x[2]["kind"] == "range"]
    for k in range(12 if q else 300):
        tg = []
        for j in range(rnd.randrange(2, 5) if (ctx.seed + k) % 4 != 1 else rnd.randrange(3, 6)):
            t, name, c = rnd.choice(plain)
            wmin, wmax = rnd.choice(corners) if rnd.random() < 0.6 else (rnd.randrange(32769), rnd.randrange(32769))
            tg.append((t, name, wmin, wmax, rnd.random() < 0.4))
        if k % 2 == 0:
            tg[0] = tg[0][:4] + (True,)          # an unmapped link BEFORE mapped ones
            tg[-1] = tg[-1][:4] + (False,)
        if (ctx.seed + k) % 4 == 1:
            tg[1] = tg[1][:4] + (False,)         # (the targets behind the first are mapped in the last-target-only layout)
            tg[-1] = tg[-1][:4] + (False,)
        mjobs.append((tg, rnd.choice(GAINS), rnd.choice(QUANTS), ctx.seed + k, k % 2 == 1))
    with mp.get_context("fork").Pool(16) as pool:
        feeds = pool.map(_feed, jobs, chunksize=1)
        for fl in pool.map(_feed_multi, mjobs, chunksize=1):
            feeds.extend(fl)
    for e in feeds:
        events.append(e)
        ctx.cov["evaluations"] += 32769
        if len(e["rle"]) > 1:
            ctx.cov["distinct_nontrivial"] += sum(r[1] for r in e["rle"])
    traces = [{"id": "e%d" % i, "events": [e]} for i, e in enumerate(events)]
    cans = []
    def canary(name, pred, mut):
        src = next((e for e in events if pred(e)), None)
        if src is None:          # no such event in this run (possible only when the code misbehaves): nothing to corrupt
            ctx.cov["canaries"].append({"canary": name, "skipped": True})
            return
        e = json.loads(json.dumps(src))
        mut(e)
        traces.append({"id": "canary-" + name, "events": [e]})
        cans.append("canary-" + name)
    canary("below-min", lambda e: e["op"] == "feed" and not e["unmapped"] and e["outcome"] == "ok", lambda e: e["rle"][0].__setitem__(0, e["lo"] - 1))
    canary("dip", lambda e: e["op"] == "feed" and not e["unmapped"] and len(e["rle"]) > 4 and e["wmin"] < e["wmax"],
           lambda e: e["rle"][2].__setitem__(0, e["rle"][1][0] - 1))
    canary("unmapped-touched", lambda e: e["op"] == "feed" and e["unmapped"], lambda e: e.__setitem__("rle", [[e["initial"], 32768], [e["initial"] + 1, 1]]))
    canary("macro-refusal-created", lambda e: e["op"] == "macro" and e["outcome"] == "MappingError", lambda e: e.__setitem__("nmods_after", e["nmods_before"] + 1))
    canary("macro-wrong-controller", lambda e: e["op"] == "macro" and e["outcome"] == "ok", lambda e: e["mapctl"].__setitem__(0, e["mapctl"][0] + 1))
    f0 = next(e for e in feeds if len(e["rle"]) > 3)
    ctx.sample({k: (v if k != "rle" else v[:6] + ["..."]) for k, v in f0.items()})
    ctx.sample(next(e for e in events if e["op"] == "macro" and e["outcome"] != "ok"))

    def where(tr, m):
        e = tr["events"][0]
        if e["op"] == "feed":
            return "feed %s.%s gain=%s quant=%s window=%s..%s curve=%s unmapped=%s" % (
                spec[e["t"]]["cls"], e["ctl"], e["gain"], e["quant"], e["wmin"], e["wmax"], e["curve"], e["unmapped"])
        return "macro targets=%s" % json.dumps(e["targets"])[:200]
    trace.validate(ctx, "Trace_RVMultiCtl", traces, "c20_multictl", canaries=cans, where=where)
    ctx.cov["traces_validated_against_impl"] = len(events)
    ctx.exhaustive = False

"""C15 - MetaModules keep embedded project and user controllers intact at any depth."""
import json

from .. import fmt, gen, specdata

EVIDENCE = dict(
    level="model_checking",
    rule="Generator builds MetaModules with nesting depth 0..3, user-controller counts over {0,1,2,3,5,27,95,96} and "
         "random, mappings onto range / negative-minimum / enum / bool targets of embedded modules of any type (also unset "
         "and out-of-range mappings), Unicode labels at arbitrary indices, values set through the public attribute after "
         "update_user_defined_controllers(), MIDI bindings of user controllers; lowered counts on live objects; both "
         "contexts (stand-alone synth, inside a project, Module.clone). TLC checks loaded = Norm(original) recursively, "
         "loaded = Read(bytes), bytes = Write(original) incl. exactly 5 + n CVALs and labels only for exposed controllers. "
         "Also: values beyond nominal ranges behind the embedded project, chains through nested MetaModules, twin MetaModules with "
         "identical embedded projects edited after a load, four nesting levels. non-trivial = n > 0 or an embedded module."
         " Foreign forms of the MetaModule section (64 / 27 mappings, labels without terminating NUL) at every depth are judged by the spec's reader; padded mapping slots are then edited in place one at a time (C06-style edit events).",
    explanation="RVFormat's MetaModule section (recursive Write/Read, target-dependent stored form of user controller values)")


def run(ctx):
    import rv.api as api
    rnd = ctx.rnd
    q = ctx.quick
    path, spec = specdata.write(ctx)
    fmt.mc_format(ctx, path, spec, 6 if q else 30)
    cl = gen.classes()
    traces = []
    for i in range(60 if q else 1000):
        depth = rnd.choice([1, 1, 2, 2, 3]) if i % 20 != 7 else 4           # (now and then four levels deep)
        if i % 6 == 5:      # user-defined controllers chained through nested MetaModules onto controllers of different kinds
            mm = gen.chain_meta(rnd, spec)
        else:
            mm = gen.rand_module(rnd, cl["MetaModule"], spec, depth=depth, in_project=False)
        if i % 4 == 3 and mm.user_defined_controllers > 1:       # lower the count on a live object
            mm.user_defined_controllers = rnd.randrange(0, mm.user_defined_controllers)
        n = int(mm.user_defined_controllers)
        nontriv = n > 0 or len(mm.project.modules) > 1
        evs = [fmt.roundtrip_event(api.Synth(mm), spec, w=True), fmt.clone_event(mm, spec)]
        p = api.Project()
        p.attach_module(mm)
        evs.append(fmt.roundtrip_event(p, spec, w=True))
        # a loaded MetaModule saved again inside a project (the reader's state feeds the project writer)
        out, q2 = fmt.load(p.read())
        if q2 is not None:
            evs.append(fmt.roundtrip_event(q2, spec, w=True))
        # files carrying controller values beyond the nominal ranges in and behind the MetaModule's section (the reader
        # is lenient for the whole file, also after the embedded project was read): judged by the spec's decoder
        if i % 3 == 0:
            sib = api.m.Amplifier()
            p.attach_module(sib)
            base = fmt.tlv.to_json_nested(p.read())
            for sec, _ in fmt.ranged_cval_sections(base, spec):
                evs.append(fmt.load_event(fmt.tlv.from_json_nested(fmt.out_of_range_variant(base, sec, rnd)), spec))
        for j, ev in enumerate(evs):
            traces.append({"id": "mm%d.%d" % (i, j), "events": [ev]})
            ctx.count_case((i, j, json.dumps(ev.get("orig", ev.get("obj")), sort_keys=True)), nontrivial=nontriv)
    # TWO MetaModules with byte-identical embedded projects in one project (two copies of a voice), also nested: after a
    # load each has its own embedded project - an edit inside one shows in that one only (judged like a C06 edit)
    from .c06 import catalogue
    for i in range(3 if q else 30):
        voice = gen.rand_module(rnd, cl["MetaModule"], spec, depth=1, in_project=False)
        p2 = api.Project()
        p2.attach_module(voice)
        p2.attach_module(voice.clone())
        if i % 2:
            holder = api.m.MetaModule()
            holder.project = p2
            p2.metamodule = holder
            top = api.Project()
            top.attach_module(holder)
            p2 = top
        data = p2.read()
        out, lq = fmt.load(data)
        if lq is None:
            continue
        base, leaves = catalogue(lq, spec, rnd)
        inner = [lf for lf in leaves if lf[1][:2] == (["modules", 2] if not i % 2 else ["modules", 2]) and "project" in lf[1]]
        rnd.shuffle(inner)
        events = [{"op": "base", "obj": base}]
        for kind, pth, fn, newv in inner[:6]:
            out, o2 = fmt.load(data)
            try:
                fn(o2)
                out, o3 = fmt.load(o2.read())
            except Exception as e:
                out, o3 = "edit-raised:" + type(e).__name__, None
            events.append({"op": "edit", "kind": kind, "path": pth, "value": newv, "outcome": out, "w": False, "edited": {"kind": "none"}, "chunks": [],
                           "after": fmt.projection.project_any(o3, spec, True) if o3 is not None else {"kind": "none"}})
            ctx.count_case(("twins", i, json.dumps(pth)), nontrivial=True)
        traces.append({"id": "twins%d" % i, "events": events})
    # forms of the MetaModule section that SunVox writes and this library never does (fewer than 96 mappings, labels without a
    # terminating NUL), at every depth, stand-alone and in a project: judged by the spec's reader; then two of the mapping
    # slots the reader had to fill in are edited IN PLACE to different targets (each slot its own: judged like a C06 edit)
    srcs = []
    for i in range(3 if q else 30):
        gen.FORCE_UDC = [5, 30, 70][i % 3]
        try:
            mm = gen.rand_module(rnd, cl["MetaModule"], spec, depth=2 if i % 2 else 1, in_project=False)
        finally:
            gen.FORCE_UDC = None
        for k_ in range(int(mm.user_defined_controllers)):
            if not mm.user_defined[k_].label:
                mm.user_defined[k_].label = ["Cutoff", "A", "Réso"][k_ % 3]
        srcs.append(("fmm%d.synth" % i, api.Synth(mm).read(), lambda r: r.module, ["module", 1]))
        if i % 2 == 0:
            pj = api.Project()
            pj.attach_module(mm)
            srcs.append(("fmm%d.project" % i, pj.read(), lambda r: r.modules[1], ["modules", 2]))
    for name, data, getmm, pb in srcs:
        for vname, ed in fmt.meta_foreign_variants(fmt.tlv.to_json_nested(data)):
            vdata = fmt.tlv.from_json_nested(ed)
            traces.append({"id": "%s.%s" % (name, vname), "events": [fmt.load_event(vdata, spec)]})
            ctx.count_case((name, vname), nontrivial=True)
            if not vname.startswith("mappings"):
                continue
            out, lo = fmt.load(vdata)
            if lo is None:
                continue
            events = [{"op": "base", "obj": fmt.projection.project_any(lo, spec, True)}]
            for slot, nv in ((70, [1, 2]), (80, [2, 1]), (95, [1, 4])):
                try:
                    o2 = fmt.load(vdata)[1]
                    mp = getmm(o2).mappings.values[slot]
                    mp.module, mp.controller = nv
                    out, o3 = fmt.load(o2.read())
                except Exception as e:
                    out, o3 = "edit-raised:" + type(e).__name__, None
                events.append({"op": "edit", "kind": "payload.meta-mapping-padded", "path": pb + ["payload", "mappings", slot + 1], "value": nv,
                               "outcome": out, "w": False, "edited": {"kind": "none"}, "chunks": [],
                               "after": fmt.projection.project_any(o3, spec, True) if o3 is not None else {"kind": "none"}})
            traces.append({"id": "%s.%s.edits" % (name, vname), "events": events})
    cans = []
    def canary(name, pred, mut):
        src = next((t for t in traces if pred(t["events"][0])), None)
        if src is None:
            return
        c = json.loads(json.dumps(src))
        c["id"] = "canary-" + name
        mut(c["events"][0])
        traces.append(c)
        cans.append(c["id"])
    def mmod(e):
        o = e["back"]
        return o["module"][0] if o["kind"] == "synth" else o["modules"][1]
    canary("udval", lambda e: e.get("back", {}).get("kind") == "synth" and mmod(e)["payload"]["attached"][0] == 1,
           lambda e: mmod(e)["payload"]["udvals"].__setitem__(0, mmod(e)["payload"]["udvals"][0] + 1))
    canary("label", lambda e: e.get("back", {}).get("kind") == "synth" and mmod(e)["payload"]["attached"][0] == 1,
           lambda e: mmod(e)["payload"]["labels"].__setitem__(0, [[120, 121]] if mmod(e)["payload"]["labels"][0] != [[120, 121]] else []))
    canary("embedded", lambda e: e.get("back", {}).get("kind") == "synth", lambda e: mmod(e)["payload"]["project"]["proj"].__setitem__("mxof", mmod(e)["payload"]["project"]["proj"]["mxof"] + 1))
    canary("mapping", lambda e: e.get("back", {}).get("kind") == "synth", lambda e: mmod(e)["payload"]["mappings"][95].__setitem__(0, 7))
    ev0 = traces[0]["events"][0]
    pl = ev0["orig"]["module"][0]["payload"]
    ctx.sample({"id": traces[0]["id"], "n": sum(pl["attached"]), "mappings_head": pl["mappings"][:4], "labels_head": pl["labels"][:4],
                "udvals_head": pl["udvals"][:4], "embedded_modules": [m.get("mtype", "none") for m in pl["project"]["modules"]]})
    fmt.validate(ctx, traces, "c15_meta", cans, path)
    ctx.exhaustive = False

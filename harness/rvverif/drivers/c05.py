"""C05 - re-saving is stable: load/save is idempotent and saving is pure."""
import copy
import json
import struct

from .. import fmt, gen, specdata, tlv

EVIDENCE = dict(
    level="model_checking",
    rule="For every loadable source X (all fixtures; generated projects and synths of every type; fixtures and generated "
         "files whose CVAL, option, link-slot and note bytes are overwritten with arbitrary - also out-of-range - values, "
         "kept only if the library can load them): load X, snapshot, save (Y), snapshot, save again, then n further "
         "load/save cycles (quick n=3, thorough n=6). TLC checks: every later save is chunk-for-chunk identical to Y; the "
         "object loaded from Y equals the object loaded from X; saving left the snapshot unchanged; Y = Write(loaded "
         "object). MC_RVFormat checks Idem (Write(Read(Write(s))) = Write(s)) on the bounded model incl. controller values "
         "outside their ranges. Added sources: a 270-module project, MetaModules over negative-minimum targets and chained "
         "through nested MetaModules, consecutive Samplers, files beyond nominal ranges behind containers (these must load), files "
         "with conflicting slot claims (known finding). non-trivial = a mutated source or one with at least 2 modules."
         " Deterministic boundary objects (MIDI-out names, named patterns, options all off) are among the sources."
         " CHFR / CHFF words zeroed (at every depth) in every instrument-bearing source.",
    explanation="histories: n load/save cycles per source")


def mutate(data, rnd):
    """Overwrite CVAL / options / SLnK / PDTA bytes with arbitrary values (structure preserved)."""
    chunks = tlv.to_json_nested(data)

    def walk(cs):
        last_chnm = None
        for c in cs:
            if c["isn"]:
                walk(c["nested"])
                continue
            if c["id"] == "CHNM":
                last_chnm = struct.unpack("<I", bytes(c["data"]))[0]
            if c["id"] == "CVAL" and rnd.random() < 0.5:
                v = rnd.choice([rnd.randrange(-2 ** 30, 2 ** 30), rnd.randrange(-300, 70000), -1, 65536, 32769])
                c["data"] = list(struct.pack("<i", v))
            elif c["id"] == "PDTA" and rnd.random() < 0.7:
                d = c["data"]
                for k in range(0, len(d) - 7, 8):
                    if rnd.random() < 0.3:
                        d[k + 2:k + 8] = [rnd.randrange(256) for _ in range(6)]
            elif c["id"] == "CHDT" and last_chnm in (0, 1, 2, 0x101) and len(c["data"]) <= 16 and rnd.random() < 0.5:
                c["data"] = [rnd.randrange(256) for _ in c["data"]]          # an options record
    walk(chunks)
    return tlv.from_json_nested(chunks)


def resave_event(data, spec, cycles, w, other=None):
    """other: bytes of an unrelated file that is loaded (and saved) between the saves of this one."""
    out, o1 = fmt.load(data)
    if o1 is None:
        return None
    s1 = fmt.projection.project_any(o1, spec, True)
    try:
        y = o1.read()
        s1b = fmt.projection.project_any(o1, spec, True)
        if other is not None:
            _, oo = fmt.load(other)
            if oo is not None:
                try:
                    oo.read()
                except Exception:
                    pass
        again = [o1.read()]
        cur = y
        o2p = None
        for k in range(cycles):
            out, ok_ = fmt.load(cur)
            if ok_ is None:
                return {"op": "load", "chunks": tlv.to_json_nested(cur, strict=False), "outcome": out, "obj": {"kind": "none"}}
            if k == 0:
                o2p = fmt.projection.project_any(ok_, spec, True)
            cur = ok_.read()
            again.append(cur)
    except Exception as e:
        types = sorted(set(__import__("re").findall(r'"mtype": "([^"]+)"', json.dumps(s1))))
        return {"op": "save_failed", "outcome": "%s: %s" % (type(e).__name__, str(e)[:80]), "types": types}
    return {"op": "resave", "w": bool(w), "first": tlv.to_json_nested(y), "again": [tlv.to_json_nested(b) for b in again],
            "obj1": s1, "obj2": o2p, "pure": s1 == s1b}


def run(ctx):
    import rv.api as api
    rnd = ctx.rnd
    q = ctx.quick
    path, spec = specdata.write(ctx)
    fmt.mc_format(ctx, path, spec, 6 if q else 24, maxdepth=1 if q else 2, timeout=3000 if q else 9000)
    cycles = 3 if q else 6
    sources = [(n, d, False) for n, d in fmt.fixtures()]
    cl = gen.classes()
    sources.append(("large", gen.large_project(rnd, spec).read(), False))        # scale
    for nm, obj in gen.boundary_sources(spec):      # deterministic boundary values
        sources.append((nm, obj.read(), False))
    for k in range(4 if q else 40):         # user-defined controllers over negative-minimum targets, and chained through nested MetaModules
        sources.append(("MetaModule-negmin%d" % k, api.Synth(gen.meta_negmin(rnd, spec)).read(), False))
        sources.append(("MetaModule-chain%d" % k, api.Synth(gen.chain_meta(rnd, spec)).read(), False))
    for k in range(6 if q else 60):         # consecutive Samplers that use different slots (what one holds must not show up in the other)
        sources.append(("Sampler-seq%d" % k, api.Synth(gen.rand_module(rnd, cl["Sampler"], spec, depth=0, in_project=False)).read(), False))
    for i in range(30 if q else 600):
        sources.append(("genp%d" % i, gen.rand_project(rnd, spec, depth=rnd.choice([0, 1, 2]), small=q).read(), False))
    for t in sorted(cl):
        for k in range(1 if q else 12):
            sources.append(("%s#%d" % (t, k), api.Synth(gen.rand_module(rnd, cl[t], spec, depth=1, in_project=False)).read(), False))
    for k in range(12 if q else 150):       # the two types with target-dependent / struct-heavy encodings get more sources
        sources.append(("MetaModule+%d" % k, api.Synth(gen.rand_module(rnd, cl["MetaModule"], spec, depth=2, in_project=False)).read(), False))
        sources.append(("Sampler+%d" % k, api.Synth(gen.rand_module(rnd, cl["Sampler"], spec, depth=1, in_project=False)).read(), False))
    # files NOT written by this library: encoded by TLC (RVFormat!Write) from abstract descriptions
    enc = []
    for i in range(15 if q else 300):
        o = fmt.projection.project_any(gen.rand_project(rnd, spec, depth=rnd.choice([0, 1]), small=True), spec)
        o["proj"]["vers"] = rnd.choice([[1, 9, 4, 0], [1, 9, 5, 0], [2, 0, 0, 0], [2, 1, 2, 1]])
        o["proj"]["time"], o["proj"]["reps"] = rnd.choice([(0, 7), (0, -3), (5, 0), (9, 9), (0, 0), (-2, 4)])
        enc.append({"id": "ref%d" % i, "events": [{"op": "encode", "obj": o}]})
    res = fmt.validate(ctx, enc, "c05_encode", [], path)
    ctx.cov["traces_validated_against_impl"] -= len(enc)
    for tr in enc:
        msgs = res[tr["id"]].get("other", [])
        if msgs:
            sources.append((tr["id"] + ".spec-encoded", tlv.from_json_nested(msgs[0]["chunks"]), False))
    base = list(sources)
    for name, data, _ in base:
        for k in range(2 if q else 8):
            sources.append(("%s~mut%d" % (name, k), mutate(data, rnd), True))
    # the optional per-block format / rate words (CHFF, CHFR) holding 0, in every data block that carries them (at every depth):
    # a value like any other - a file that loads is a fixed point after one cycle
    def zero_words(data, cid_):
        cs = tlv.to_json_nested(data)
        hit = [0]
        def walk(lst):
            for c in lst:
                if c["isn"]:
                    walk(c["nested"])
                elif c["id"] == cid_ and any(c["data"]):
                    c["data"] = [0] * len(c["data"])
                    hit[0] += 1
        walk(cs)
        return tlv.from_json_nested(cs) if hit[0] else None
    for name, data, _ in base:
        if "ampler" in name or name.startswith("bnd-"):
            for cid_ in ("CHFR", "CHFF"):
                v = zero_words(data, cid_)
                if v is not None:
                    sources.append(("%s~%s0" % (name, cid_.lower()), v, True))
    # files whose explicit slot chunks make two in-links claim the same out slot of one source (a written SLnK zeroed):
    # loadable, so inside the quantifier
    from .. import links
    for i in range(4 if q else 60):
        n = rnd.randrange(4, 8)
        p = links.make_project(n, rnd, links.simple_classes()[:6])
        src = p.modules[rnd.randrange(1, n)]
        p.connect(src, [m for m in p.modules[1:] if m is not src][:rnd.randrange(2, n - 1)])
        ch = tlv.split(p.read())
        if any(cid == b"SLnK" for cid, _ in ch):
            sources.append(("slotclaim%d~zeroslots" % i, tlv.join([(cid, bytes(len(pl)) if cid == b"SLnK" else pl) for cid, pl in ch]), True))
    # files that carry values beyond the nominal ranges of RANGED controllers, in and behind sections with embedded
    # containers: the statement counts them among the loadable files - a refusal to load one is reported, not skipped
    must_load = set()
    for k in range(4 if q else 40):
        pj = api.Project()
        pj.attach_module(gen.rand_module(rnd, cl[rnd.choice(["MetaModule", "Sampler"])], spec, depth=1, in_project=True))
        pj.attach_module(gen.rand_module(rnd, cl[rnd.choice(["Amplifier", "Filter", "Echo"])], spec, depth=0, in_project=True))
        base_ = tlv.to_json_nested(pj.read())
        for j, (sec, _c) in enumerate(fmt.ranged_cval_sections(base_, spec)):
            nm = "beyond-range%d.%d" % (k, j)
            sources.append((nm, tlv.from_json_nested(fmt.out_of_range_variant(base_, sec, rnd)), True))
            must_load.add(nm)
    traces = []
    skipped = 0
    prev = {}
    for name, data, mutated in sources:
        kind = data[:4]
        # every other source: an unrelated file of the same container kind is loaded and saved between the saves
        ev = resave_event(data, spec, cycles, w=False, other=prev.get(kind) if len(traces) % 2 else None)
        if not mutated:
            prev[kind] = data
        if ev is None and name in must_load:
            traces.append({"id": name, "events": [fmt.load_event(data, spec)]})
            continue
        if ev is None:
            skipped += 1          # not loadable: outside the property's quantifier
            continue
        traces.append({"id": name, "events": [ev]})
        nm = len(ev.get("obj1", {}).get("modules", [])) if ev["op"] == "resave" else 0
        ctx.count_case((name, hash(data)), nontrivial=mutated or nm >= 2)
    ctx.cov["sources_not_loadable_skipped"] = skipped
    ctx.cov["cycles"] = cycles
    cans = []
    def canary(name, mut):
        src = next(t for t in traces if t["events"][0]["op"] == "resave" and t["events"][0]["obj1"].get("kind") == "synth")
        c = json.loads(json.dumps(src))
        c["id"] = "canary-" + name
        mut(c["events"][0])
        traces.append(c)
        cans.append(c["id"])
    canary("drift", lambda e: [c for c in e["again"][-1] if c["id"] == "CVAL"][0]["data"].__setitem__(0, ([c for c in e["again"][-1] if c["id"] == "CVAL"][0]["data"][0] + 128) % 256))
    canary("impure", lambda e: e.__setitem__("pure", False))
    canary("reload", lambda e: e["obj2"]["module"][0].__setitem__("fin", e["obj2"]["module"][0]["fin"] + 1))
    e0 = next(t for t in traces if "~mut" in t["id"])
    ctx.sample({"id": e0["id"], "op": e0["events"][0]["op"], "saves_compared": len(e0["events"][0].get("again", [])),
                "cvals": [struct.unpack("<i", bytes(c["data"]))[0] for c in e0["events"][0].get("first", []) if c["id"] == "CVAL"][:8]})
    def where(tr, m):
        e = tr["events"][0]
        return tr["id"] + (" types=%s" % ",".join(e["types"]) if e.get("op") == "save_failed" else "")
    fmt.validate(ctx, traces, "c05_resave", cans, path, xmx="24g", where=where)
    ctx.exhaustive = False

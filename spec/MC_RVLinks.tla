----------------------------- MODULE MC_RVLinks -----------------------------
(* Bounded model of the link tables: exhaustive exploration with TLC, every *)
(* explored transition optionally emitted as JSON for graph replay (mode A). *)
EXTENDS RVLinks, Json
CONSTANTS N,        \* number of modules (0 = Output)
          MaxLen,   \* bound on the length of every table (state constraint)
          Shapes,   \* "pairs": single-pair requests only; "lists": list operands too
          StateK,   \* EmitState prints a state iff Hash % StateK = EmitSel
          EmitK, EmitSel   \* emit a transition iff Hash % EmitK = EmitSel (EmitK = 1: all; 0: none)
VARIABLES st
vars == <<st>>
Mods == 0..(N-1)

Init == st = EmptyTables(N)
InBound == \A m \in 1..N : Len(st.inl[m]) <= MaxLen /\ Len(st.outl[m]) <= MaxLen
Bound == InBound   \* the CONSTRAINT; invariants use InBound (TLC -coverage cannot evaluate a constraint name inside an invariant)

O(m, b) == [m |-> m, neg |-> b]
Ops1 == {<<O(m, b)>> : m \in Mods, b \in BOOLEAN}
Ops2 == {<<O(a, x), O(b, y)>> : a \in Mods, b \in Mods, x \in BOOLEAN, y \in BOOLEAN}
OpsF == {<<O(N, FALSE)>>, <<O(0, FALSE), O(N, FALSE)>>, <<O(N, TRUE), O(1, FALSE)>>}   \* module N is in another project
Ops  == IF Shapes = "pairs" THEN Ops1 ELSE Ops1 \cup Ops2 \cup OpsF

SumQ(q) == FoldLeft(LAMBDA a, x : a + x + 2, 0, q)
SumO(A) == FoldLeft(LAMBDA a, o : a + 3 * o.m + (IF o.neg THEN 5 ELSE 0), 0, A)
Hash(s, A, B) == FoldLeft(LAMBDA a, m : a + m * SumQ(s.inl[m]) + (m + 3) * SumQ(s.outs[m]), 0, [m \in 1..N |-> m])
                 + 7 * SumO(A) + 11 * SumO(B) + Len(A) + 2 * Len(B)
ViaOf(h) == IF h % 3 = 0 THEN "method" ELSE IF h % 3 = 1 THEN "rshift" ELSE "lshift"

Emit(A, B, via, r) ==
  IF EmitK = 0 THEN TRUE
  ELSE IF Hash(st, A, B) % EmitK # EmitSel % EmitK THEN TRUE
  ELSE PrintT(ToJson([k |-> "T", pre |-> st, via |-> via, A |-> A, B |-> B,
                      outcome |-> r.outcome, posts |-> SetToSeq(r.posts)]))

(* design-level theorem: the live edge set after a request is the old set   *)
(* plus/minus exactly the requested pairs, in order                         *)
EdgesAsRequested(s, A, B, r) ==
  r.outcome = "ok" => \A p \in r.posts : LiveEdges(p) = EdgeSem(LiveEdges(s), Pairs(A, B))

Request(A, B) ==
  LET h == Hash(st, A, B)  via == ViaOf(h)
      X == IF via = "lshift" THEN B ELSE A      \* X << Y  means connect(Y, X)
      Y == IF via = "lshift" THEN A ELSE B
      r == ViaRes(st, via, X, Y) IN
  /\ Assert(EdgesAsRequested(st, A, B, r), <<"EdgesAsRequested violated", st, A, B>>)
  /\ Emit(X, Y, via, r)
  /\ \E p \in r.posts : st' = p

Next == \E A \in Ops, B \in Ops : Request(A, B)
Spec == Init /\ [][Next]_vars


ConsistentNow   == Consistent(st)
RTCanonical     == LoadOK(st, "canonical", Loaded(st, "canonical", {}))
RTAlways        == LoadOK(st, "always",    Loaded(st, "always", {}))
RTNever         == LoadOK(st, "never",     Loaded(st, "never", {}))
RTSuperset      == \A sub \in SUBSET Mods : LoadOK(st, "superset", Loaded(st, "superset", sub))
(* exact reload (not only up to trailing slots) of in tables for full slot information *)
(* emitted once per distinct reachable state (TLC evaluates an invariant once per state): *)
(* the C08 driver saves and loads a real project in each emitted state                  *)
EmitState       == IF ~InBound \/ Hash(st, <<>>, <<>>) % StateK # EmitSel % StateK THEN TRUE
                   ELSE PrintT(ToJson([k |-> "S", st |-> st]))
RTExactIn       == LET l == Loaded(st, "canonical", {}) IN
                   \A m \in 1..N : l.inl[m] = StripT(st.inl[m]) /\ l.ins[m] = StripT(st.ins[m])
=============================================================================

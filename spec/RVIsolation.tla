------------------------------ MODULE RVIsolation ------------------------------
(***************************************************************************)
(* Object isolation (property C17), heap layer.                            *)
(* Mutable containers (lists, dicts, bytearrays, rv data objects) are      *)
(* cells.  Each root object (a project, a free module, a synth, a pattern) *)
(* reaches a set of cells through its INSTANCE state; class attributes of  *)
(* the library's classes reach the class cells.  Independent roots must    *)
(* not share a cell, and must not reach a class cell: then an in-place      *)
(* mutation through one root cannot be observed through another, nor by     *)
(* objects constructed later.                                               *)
(***************************************************************************)
EXTENDS Integers, Sequences, FiniteSets, TLC

NoSharing(reach, classCells) ==
  /\ \A a, b \in DOMAIN reach : a # b => reach[a] \cap reach[b] = {}
  /\ \A a \in DOMAIN reach : reach[a] \cap classCells = {}
=============================================================================

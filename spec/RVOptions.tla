------------------------------- MODULE RVOptions -------------------------------
(***************************************************************************)
(* Module options (property C11).  The options of a type t are the records *)
(* SpecData[t].opts.  A configuration sv maps option name -> STORED value   *)
(* (what goes into the bits); the attribute presents the LOGICAL value,    *)
(* which is the negation for options declared inverted.                    *)
(***************************************************************************)
EXTENDS RVSpecData, SequencesExt, FiniteSetsExt

OptNames(t) == {Opts(t)[i].name : i \in 1..Len(Opts(t))}
Opt(t, n)   == Opts(t)[CHOOSE i \in 1..Len(Opts(t)) : Opts(t)[i].name = n]
Pow2(n) == 2^n
Logical(o, s) == IF o.inverted THEN 1 - s ELSE s
Stored(o, v)  == IF o.inverted THEN 1 - v ELSE v
Defaults(t) == [n \in OptNames(t) |-> Stored(Opt(t, n), Opt(t, n).default)]
Clamp(lo, hi, v) == IF v < lo THEN lo ELSE IF v > hi THEN hi ELSE v
Representable(o, v) == v >= 0 /\ v < Pow2(o.size)

(* option attribute assignment: the SET of allowed resulting configurations *)
SetOption(t, sv, n, v) ==
  LET o == Opt(t, n)
      s == IF o.hasmm THEN Clamp(o.min, o.max, v)                          \* declared bounds: clamped
           ELSE IF o.size = 1 THEN Stored(o, IF v = 0 THEN 0 ELSE 1)       \* one bit: boolean
           ELSE v
      base == [sv EXCEPT ![n] = s]
      ex == {x \in OptNames(t) : \E k \in 1..Len(o.exclusive_of) : o.exclusive_of[k] = x}
      on == o.size = 1 /\ Logical(o, s) = 1
  IN IF ex = {} THEN {base}
     ELSE IF on THEN {[x \in OptNames(t) |-> IF x \in ex THEN Stored(Opt(t, x), 0) ELSE base[x]]}
     \* switching an option OFF: the property only demands "never both on"; partners keep
     \* their value or are switched off
     ELSE {[x \in OptNames(t) |-> IF x \in off THEN Stored(Opt(t, x), 0) ELSE base[x]] : off \in SUBSET ex}

(* the options record: byte b holds the stored values of the options declared at byte b *)
MaxByte(t) == Max({Opts(t)[i].byte : i \in 1..Len(Opts(t))})
Pack(t, sv) == [b \in 1..(MaxByte(t) + 1) |->
     FoldLeft(LAMBDA acc, o : IF o.byte = b - 1 THEN acc + (sv[o.name] % Pow2(o.size)) * Pow2(o.bit) ELSE acc, 0, Opts(t))]
Unpack(t, bytes) == [n \in OptNames(t) |-> LET o == Opt(t, n) IN
     IF o.byte + 1 <= Len(bytes) THEN (bytes[o.byte + 1] \div Pow2(o.bit)) % Pow2(o.size) ELSE 0]

NeverBothOn(t, sv) == \A n \in OptNames(t) : LET o == Opt(t, n) IN
     \A k \in 1..Len(o.exclusive_of) :
        LET p == Opt(t, o.exclusive_of[k]) IN
        ~(Logical(o, sv[n]) = 1 /\ Logical(p, sv[p.name]) = 1)
AllRepresentable(t, sv) == \A n \in OptNames(t) : Representable(Opt(t, n), sv[n])
InBounds(t, sv) == \A n \in OptNames(t) : LET o == Opt(t, n) IN o.hasmm => o.min <= sv[n] /\ sv[n] <= o.max
=============================================================================

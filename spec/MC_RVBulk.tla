------------------------------- MODULE MC_RVBulk -------------------------------
EXTENDS RVBulk
CONSTANTS NCells, Notes
Init == /\ cells \in [1..NCells -> Notes] /\ scratch = <<>> /\ pc = "idle"
        /\ owner = [k \in 1..NCells |-> TRUE]
Next == Begin \/ Fail \/ Commit \/ \E k \in 1..NCells, n \in Notes : Cell(k, n)
Spec == Init /\ [][Next]_vars
ScratchSane == pc = "busy" => Len(scratch) = Len(cells)
=============================================================================

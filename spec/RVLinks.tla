------------------------------- MODULE RVLinks -------------------------------
(***************************************************************************)
(* Link tables of a radiant-voices Project (properties C07, C08).          *)
(*                                                                         *)
(* Every module m (zero-based index, 0 = Output) carries four lists:       *)
(*   inl[m]  sources of incoming links            (Module.in_links)        *)
(*   ins[m]  for each incoming link, the slot it occupies in the source's  *)
(*           outgoing table                       (Module.in_link_slots)   *)
(*   outl[m] destinations of outgoing links       (Module.out_links)       *)
(*   outs[m] slot in the destination's incoming table (out_link_slots)     *)
(* A freed slot is -1 in both lists of a table.  Tables are TLA+ sequences *)
(* indexed by m+1.  All operators are functions of an explicit tables      *)
(* record so that they can be used both as actions of the model and as     *)
(* the oracle of trace validation.                                         *)
(***************************************************************************)
EXTENDS Integers, Sequences, FiniteSets, SequencesExt, TLC, RVSeq

NMods(s) == Len(s.inl)
EmptyTables(n) == LET e == [i \in 1..n |-> <<>>] IN [inl |-> e, ins |-> e, outl |-> e, outs |-> e]


(* -------- one pair: Project.connect(from, to) for a single (from, to) ---- *)
ConnectPair(s, f, t) ==                      \* f, t zero-based module indices
  IF Has(s.inl[t+1], f) THEN s ELSE          \* already connected: no-op
  LET ii == Len(s.inl[t+1])                  \* zero-based position of the new in-entry
      oi == Len(s.outl[f+1])                 \* zero-based position of the new out-entry
  IN [inl  |-> [s.inl  EXCEPT ![t+1] = Append(@, f)],
      ins  |-> [s.ins  EXCEPT ![t+1] = Append(@, oi)],
      outl |-> [s.outl EXCEPT ![f+1] = Append(@, t)],
      outs |-> [s.outs EXCEPT ![f+1] = Append(@, ii)]]

DisconnectPair(s, f, t) ==
  IF ~Has(s.inl[t+1], f) THEN s ELSE         \* already disconnected: no-op
  LET ii == IndexOf(s.inl[t+1], f)
      oi == IndexOf(s.outl[f+1], t)
  IN [inl  |-> [s.inl  EXCEPT ![t+1][ii] = -1],
      ins  |-> [s.ins  EXCEPT ![t+1][ii] = -1],
      outl |-> [s.outl EXCEPT ![f+1][oi] = -1],
      outs |-> [s.outs EXCEPT ![f+1][oi] = -1]]

(* -------- operands: sequences of [m |-> index, neg |-> BOOLEAN] ---------- *)
(* neg is the ~module form.  A module that is not in this project (another  *)
(* project's, or unattached) has m outside 0..NMods-1.                      *)
Pairs(F, T) == [k \in 1..(Len(F) * Len(T)) |->
                  <<F[((k-1) \div Len(T)) + 1], T[((k-1) % Len(T)) + 1]>>]
Foreign(s, o) == o.m < 0 \/ o.m >= NMods(s)
PairOp(s, p) == IF p[1].neg \/ p[2].neg THEN DisconnectPair(s, p[1].m, p[2].m)
                                        ELSE ConnectPair(s, p[1].m, p[2].m)
ApplyPairs(s, ps) == FoldLeft(PairOp, s, ps)

FirstForeign(s, ps) ==
  IF \E k \in 1..Len(ps) : Foreign(s, ps[k][1]) \/ Foreign(s, ps[k][2])
  THEN CHOOSE k \in 1..Len(ps) : /\ (Foreign(s, ps[k][1]) \/ Foreign(s, ps[k][2]))
                                 /\ \A j \in 1..(k-1) : ~(Foreign(s, ps[j][1]) \/ Foreign(s, ps[j][2]))
  ELSE 0

(* Result of connect(F, T): outcome and the SET of allowed post-states.     *)
(* With a foreign module the call must be refused; the property does not    *)
(* demand atomicity, so any prefix of the pairs before the foreign one may  *)
(* have been applied.                                                       *)
ConnectRes(s, F, T) ==
  LET ps == Pairs(F, T)  k == FirstForeign(s, ps) IN
  IF k = 0 THEN [outcome |-> "ok", posts |-> {ApplyPairs(s, ps)}]
  ELSE [outcome |-> "ModuleOwnershipError",
        posts |-> {ApplyPairs(s, SubSeq(ps, 1, j)) : j \in 0..(k-1)}]

(* operator sugar:  A >> B  is connect(A, B);  A << B  is connect(B, A);     *)
(* A >> B >> C chains because >> returns its right operand.                 *)
ViaRes(s, via, A, B) == IF via = "lshift" THEN ConnectRes(s, B, A) ELSE ConnectRes(s, A, B)

(* -------- edge-level meaning (what the sequence "asks for") -------------- *)
LiveEdges(s) == {e \in UNION {{<<s.inl[t][i], t-1>> : i \in 1..Len(s.inl[t])} : t \in 1..NMods(s)} : e[1] # -1}
EdgeOp(E, p) == IF p[1].neg \/ p[2].neg THEN E \ {<<p[1].m, p[2].m>>} ELSE E \cup {<<p[1].m, p[2].m>>}
EdgeSem(E, ps) == FoldLeft(EdgeOp, E, ps)

(* -------- mutual consistency (C07) --------------------------------------- *)
Consistent(s) ==
  LET n == NMods(s)  M == 1..n IN
  /\ Len(s.ins) = n /\ Len(s.outl) = n /\ Len(s.outs) = n
  /\ \A m \in M : Len(s.inl[m]) = Len(s.ins[m]) /\ Len(s.outl[m]) = Len(s.outs[m])
  /\ \A m \in M : \A i \in 1..Len(s.inl[m]) :
        LET f == s.inl[m][i]  j == s.ins[m][i] IN
        IF f = -1 THEN j = -1
        ELSE /\ f >= 0 /\ f < n /\ j >= 0 /\ j < Len(s.outl[f+1])
             /\ s.outl[f+1][j+1] = m-1 /\ s.outs[f+1][j+1] = i-1
  /\ \A m \in M : \A i \in 1..Len(s.outl[m]) :
        LET t == s.outl[m][i]  j == s.outs[m][i] IN
        IF t = -1 THEN j = -1
        ELSE /\ t >= 0 /\ t < n /\ j >= 0 /\ j < Len(s.inl[t+1])
             /\ s.inl[t+1][j+1] = m-1 /\ s.ins[t+1][j+1] = i-1
  /\ \A m \in M : \A i, j \in 1..Len(s.inl[m]) :
        (i # j /\ s.inl[m][i] # -1) => s.inl[m][i] # s.inl[m][j]

(* Name of the first failing clause, for verdict lines. *)
WhyInconsistent(s) ==
  LET n == NMods(s)  M == 1..n IN
  IF ~(Len(s.ins) = n /\ Len(s.outl) = n /\ Len(s.outs) = n) THEN "table-count"
  ELSE IF ~(\A m \in M : Len(s.inl[m]) = Len(s.ins[m]) /\ Len(s.outl[m]) = Len(s.outs[m])) THEN "lengths"
  ELSE IF ~(\A m \in M : \A i \in 1..Len(s.inl[m]) :
        LET f == s.inl[m][i]  j == s.ins[m][i] IN
        IF f = -1 THEN j = -1
        ELSE /\ f >= 0 /\ f < n /\ j >= 0 /\ j < Len(s.outl[f+1])
             /\ s.outl[f+1][j+1] = m-1 /\ s.outs[f+1][j+1] = i-1) THEN "in-entry-not-mirrored"
  ELSE IF ~(\A m \in M : \A i \in 1..Len(s.outl[m]) :
        LET t == s.outl[m][i]  j == s.outs[m][i] IN
        IF t = -1 THEN j = -1
        ELSE /\ t >= 0 /\ t < n /\ j >= 0 /\ j < Len(s.inl[t+1])
             /\ s.inl[t+1][j+1] = m-1 /\ s.ins[t+1][j+1] = i-1) THEN "out-entry-not-mirrored"
  ELSE IF ~(\A m \in M : \A i, j \in 1..Len(s.inl[m]) :
        (i # j /\ s.inl[m][i] # -1) => s.inl[m][i] # s.inl[m][j]) THEN "duplicate-link"
  ELSE "consistent"

(* -------- save / load (C08) ---------------------------------------------- *)
StripT(q) == IF \E i \in 1..Len(q) : q[i] # -1
             THEN SubSeq(q, 1, CHOOSE i \in 1..Len(q) : q[i] # -1 /\ \A j \in (i+1)..Len(q) : q[j] = -1)
             ELSE <<>>
Strip(s) == [inl  |-> [m \in 1..NMods(s) |-> StripT(s.inl[m])],  ins  |-> [m \in 1..NMods(s) |-> StripT(s.ins[m])],
             outl |-> [m \in 1..NMods(s) |-> StripT(s.outl[m])], outs |-> [m \in 1..NMods(s) |-> StripT(s.outs[m])]]

NeedSlots(q) == \E i \in 1..Len(q) : q[i] \notin {-1, 0}

(* What is in the file for module m: SLNK always (as stored, incl. trailing *)
(* freed entries); SLnK according to the variant:                           *)
(*   canonical  the library's writer: only if some slot is neither 0 nor -1 *)
(*   always     whenever there are links                                    *)
(*   never      legacy files without slot information                       *)
(*   superset   canonical, plus the modules in sub                          *)
HasSlnK(s, m, variant, sub) ==
  CASE variant = "canonical" -> NeedSlots(s.ins[m])
    [] variant = "always"    -> Len(s.inl[m]) > 0
    [] variant = "never"     -> FALSE
    [] variant = "superset"  -> NeedSlots(s.ins[m]) \/ (m-1 \in sub /\ Len(s.inl[m]) > 0)
File(s, variant, sub) ==
  [m \in 1..NMods(s) |-> [slnk |-> s.inl[m],
                          slnK |-> IF HasSlnK(s, m, variant, sub) THEN <<s.ins[m]>> ELSE <<>>]]

(* The reader, transcribed from the documented reconstruction:             *)
(*  0. per module: in-links := SLNK, in-slots := SLnK, trailing -1 dropped  *)
(*  1. modules 1..n-1 then 0 that have no slot data get slots assigned in   *)
(*     order, appending to the source's outgoing table                     *)
(*  2. outgoing tables are (re)written from every module's in tables        *)
(* ex[m] = FALSE marks an empty module position.                            *)
L0(file, ex) == LET n == Len(file) e == [m \in 1..n |-> <<>>] IN
  [inl |-> [m \in 1..n |-> IF ex[m] THEN StripT(file[m].slnk) ELSE <<>>],
   ins |-> [m \in 1..n |-> IF ex[m] /\ file[m].slnK # <<>> THEN StripT(file[m].slnK[1]) ELSE <<>>],
   outl |-> e, outs |-> e]

RECURSIVE P1Links(_, _, _)
P1Links(s, m, k) ==                          \* k-th in-link of module position m (1-based)
  IF k > Len(s.inl[m]) THEN s ELSE
  LET o == s.inl[m][k] IN
  IF o = -1 THEN P1Links([s EXCEPT !.ins[m] = Append(@, -1)], m, k+1) ELSE
  LET inslot  == Len(s.outs[o+1])
      outslot == Len(s.ins[m])
      a == [s EXCEPT !.ins[m] = Append(@, inslot)]
      b == [a EXCEPT !.outl[o+1] = Append(@, m-1)]
      c == [b EXCEPT !.outs[o+1] = Append(@, outslot)]
  IN P1Links(c, m, k+1)
RECURSIVE P1(_, _, _)
P1(s, ex, i) == IF i > NMods(s) THEN s ELSE
  LET m == IF i < NMods(s) THEN i + 1 ELSE 1 IN
  IF ~ex[m] \/ s.ins[m] # <<>> THEN P1(s, ex, i+1) ELSE P1(P1Links(s, m, 1), ex, i+1)

PadM(q, n) == IF Len(q) >= n THEN q ELSE q \o [i \in 1..(n - Len(q)) |-> -1]
RECURSIVE P2Links(_, _, _)
P2Links(s, m, k) ==
  IF k > Len(s.inl[m]) THEN s ELSE
  LET oidx == s.ins[m][k]
      src  == IF s.inl[m][k] = -1 THEN NMods(s) ELSE s.inl[m][k] + 1
      a == [s EXCEPT !.outl[src] = PadM(@, oidx+1), !.outs[src] = PadM(@, oidx+1)]
      b == IF oidx # -1 THEN [a EXCEPT !.outl[src][oidx+1] = m-1, !.outs[src][oidx+1] = k-1] ELSE a
  IN P2Links(b, m, k+1)
RECURSIVE P2(_, _, _)
P2(s, ex, m) == IF m > NMods(s) THEN s ELSE IF ~ex[m] THEN P2(s, ex, m+1) ELSE P2(P2Links(s, m, 1), ex, m+1)

LoadFile(file, ex) == P2(P1(L0(file, ex), ex, 1), ex, 1)
AllEx(s) == [m \in 1..NMods(s) |-> TRUE]
Loaded(s, variant, sub) == LoadFile(File(s, variant, sub), AllEx(s))

(* C08 post-conditions, as predicates on (state before save, tables after load) *)
SameUpToTrailing(a, b) == Strip(a) = Strip(b)
SameGraphAndInOrder(a, b) == /\ LiveEdges(a) = LiveEdges(b)
                             /\ \A m \in 1..NMods(a) : StripT(a.inl[m]) = StripT(b.inl[m])
LoadOK(s, variant, l) ==
  /\ NMods(l) = NMods(s)
  /\ Consistent(l)
  /\ IF variant = "never" THEN SameGraphAndInOrder(s, l) ELSE SameUpToTrailing(s, l)
=============================================================================

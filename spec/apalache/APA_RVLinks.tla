------------------------------ MODULE APA_RVLinks ------------------------------
(* Apalache wrapper: Consistent as an INDUCTIVE invariant of single connect /     *)
(* disconnect requests over N modules with tables of any length up to the Gen      *)
(* bound (no state constraint as in the TLC model).  Not load-bearing: see         *)
(* DESIGN.md 8; TLC's exhaustive model remains the claimed check.                  *)
EXTENDS Integers, Sequences, Apalache
N == 3
VARIABLE
  \* @type: { inl: Seq(Seq(Int)), ins: Seq(Seq(Int)), outl: Seq(Seq(Int)), outs: Seq(Seq(Int)) };
  st

\* @type: (Seq(Int), Int) => Bool;
Has(q, x) == \E i \in DOMAIN q : q[i] = x
\* @type: (Seq(Int), Int) => Int;
IndexOf(q, x) == CHOOSE i \in DOMAIN q : q[i] = x /\ \A j \in DOMAIN q : j < i => q[j] # x
\* @type: ({ inl: Seq(Seq(Int)), ins: Seq(Seq(Int)), outl: Seq(Seq(Int)), outs: Seq(Seq(Int)) }, Int, Int) => { inl: Seq(Seq(Int)), ins: Seq(Seq(Int)), outl: Seq(Seq(Int)), outs: Seq(Seq(Int)) };
ConnectPair(s, f, t) ==
  IF Has(s.inl[t+1], f) THEN s ELSE
  LET ii == Len(s.inl[t+1])  oi == Len(s.outl[f+1]) IN
  [inl  |-> [s.inl  EXCEPT ![t+1] = Append(@, f)],
   ins  |-> [s.ins  EXCEPT ![t+1] = Append(@, oi)],
   outl |-> [s.outl EXCEPT ![f+1] = Append(@, t)],
   outs |-> [s.outs EXCEPT ![f+1] = Append(@, ii)]]
\* @type: ({ inl: Seq(Seq(Int)), ins: Seq(Seq(Int)), outl: Seq(Seq(Int)), outs: Seq(Seq(Int)) }, Int, Int) => { inl: Seq(Seq(Int)), ins: Seq(Seq(Int)), outl: Seq(Seq(Int)), outs: Seq(Seq(Int)) };
DisconnectPair(s, f, t) ==
  IF ~Has(s.inl[t+1], f) THEN s ELSE
  LET ii == IndexOf(s.inl[t+1], f)  oi == IndexOf(s.outl[f+1], t) IN
  [inl  |-> [s.inl  EXCEPT ![t+1][ii] = -1], ins  |-> [s.ins  EXCEPT ![t+1][ii] = -1],
   outl |-> [s.outl EXCEPT ![f+1][oi] = -1], outs |-> [s.outs EXCEPT ![f+1][oi] = -1]]
\* @type: ({ inl: Seq(Seq(Int)), ins: Seq(Seq(Int)), outl: Seq(Seq(Int)), outs: Seq(Seq(Int)) }) => Bool;
Consistent(s) ==
  LET M == 1..N IN
  /\ Len(s.inl) = N /\ Len(s.ins) = N /\ Len(s.outl) = N /\ Len(s.outs) = N
  /\ \A m \in M : Len(s.inl[m]) = Len(s.ins[m]) /\ Len(s.outl[m]) = Len(s.outs[m])
  /\ \A m \in M : \A i \in DOMAIN s.inl[m] :
        LET f == s.inl[m][i]  j == s.ins[m][i] IN
        IF f = -1 THEN j = -1
        ELSE /\ f >= 0 /\ f < N /\ j >= 0 /\ j < Len(s.outl[f+1])
             /\ s.outl[f+1][j+1] = m-1 /\ s.outs[f+1][j+1] = i-1
  /\ \A m \in M : \A i \in DOMAIN s.outl[m] :
        LET t == s.outl[m][i]  j == s.outs[m][i] IN
        IF t = -1 THEN j = -1
        ELSE /\ t >= 0 /\ t < N /\ j >= 0 /\ j < Len(s.inl[t+1])
             /\ s.inl[t+1][j+1] = m-1 /\ s.ins[t+1][j+1] = i-1
  /\ \A m \in M : \A i, j \in DOMAIN s.inl[m] : (i # j /\ s.inl[m][i] # -1) => s.inl[m][i] # s.inl[m][j]
Init == st = [inl |-> <<<<>>, <<>>, <<>>>>, ins |-> <<<<>>, <<>>, <<>>>>, outl |-> <<<<>>, <<>>, <<>>>>, outs |-> <<<<>>, <<>>, <<>>>>]
IndInit == st = Gen(4) /\ Consistent(st)
Next == \E f \in 0..(N-1), t \in 0..(N-1) : st' = ConnectPair(st, f, t) \/ st' = DisconnectPair(st, f, t)
IndInv == Consistent(st)
=============================================================================

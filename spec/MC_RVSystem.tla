------------------------------- MODULE MC_RVSystem -------------------------------
(* Bounded composition; used with `tlc -simulate` to produce mixed histories that   *)
(* are replayed on real objects (every transition is printed with its step number), *)
(* and exhaustively with small constants for the invariants.                        *)
EXTENDS RVSystem, Json
CONSTANTS NM, NP, MaxSlots, MaxLinks, MaxStep, Emit, Lists,
          Focus,    \* "all", or the name of an action subset on which simulated behaviours concentrate
          EmitK, EmitSel   \* exhaustive mode: print every transition whose hash % EmitK = EmitSel (0: none) for replay with state injection
VARIABLES w, step, hist        \* hist: the requests made so far (only when Emit), printed at the end of a simulated behaviour
Init == w = InitW(NM, NP) /\ step = 0 /\ hist = <<>>
FocusActs == [multictl |-> {"attach", "connect", "saveload", "set_map", "feed", "attach_none"},
              gaps |-> {"attach", "attach_end", "attach_none", "connect", "saveload"},
              options |-> {"attach", "attach_none", "connect", "saveload", "set_opt", "clone_module", "failed_load"},
              clones |-> {"attach", "connect", "clone_module", "saveload"},
              patterns |-> {"attach", "attach_end", "attach_none", "attach_pattern", "saveload", "bulk_edit", "set_note_mod", "set_note_num", "get_note_mod"}]
Allowed(act) == IF Focus = "all" THEN act # "set_opt"       \* (option assignment needs option-bearing modules: focus "options")
                ELSE act \in FocusActs[Focus]
SumQ(q) == FoldLeft(LAMBDA a, x : a + x + 2, 0, q)
HashW(x) == FoldLeft(LAMBDA a, m : a + m * SumQ(x.t[m].inl) + (m + 3) * SumQ(x.t[m].outs) + 5 * x.vol[m], 0, [m \in 1..NM |-> m])
            + 7 * SumQ(x.p.slots[1]) + 11 * SumQ(x.p.slots[2]) + 13 * SumQ(x.map) + SumQ(x.p.nmod)
EmitT(act, args, r) ==
  IF EmitK = 0 \/ (HashW(w) + Len(act)) % EmitK # EmitSel % EmitK THEN TRUE
  ELSE PrintT(ToJson([k |-> "T", pre |-> w, act |-> act, args |-> args, outcome |-> r.outcome, posts |-> SetToSeq(r.posts), ret |-> r.ret]))
View == w       \* (exhaustive mode: the step counter and the history are not part of the state's identity)
Do(act, args, r) == /\ Allowed(act) /\ step < MaxStep /\ EmitT(act, args, r) /\ \E q \in r.posts : w' = q /\ step' = step + 1
                    /\ hist' = IF Emit THEN Append(hist, [act |-> act, args |-> args, outcome |-> r.outcome, ret |-> r.ret, post |-> w', posts |-> SetToSeq(r.posts)]) ELSE hist
(* evaluated on the states of the simulated behaviour: prints the complete history once the behaviour is MaxStep long *)
EmitHist == step < MaxStep \/ ~Emit \/ PrintT(ToJson([k |-> "H", hist |-> hist]))
Mods == 1..NM
MC == NM                    \* the MultiCtl
Plain == Mods \ {1, 2, MC}  \* modules with a volume controller
O(m, b) == [m |-> m, neg |-> b]
(* operands of a request to project P: its own modules, and one module that is not its own *)
Own(P) == {m \in Mods : Has(w.p.slots[P], m)}
Cand(P) == Own(P) \cup (IF Mods \ Own(P) = {} THEN {} ELSE {CHOOSE m \in Mods \ Own(P) : TRUE})
Operands(P) == {<<O(m, b)>> : m \in Cand(P), b \in BOOLEAN}
               \cup (IF Lists THEN {<<O(a, FALSE), O(b, c)>> : a \in Own(P), b \in Cand(P), c \in BOOLEAN} ELSE {})
Next ==
  \* (focus "multictl": one project, the MultiCtl as the source of every request - the same actions, fewer choices)
  \/ \E P \in 1..2, m \in Mods : (Focus = "multictl" => P = 1 /\ ~Has(w.p.slots[1], m)) /\ (Focus \in {"gaps", "options", "clones"} => P = 1) /\ Do("attach", <<P, m>>, Lift(w, Attach(w.p, P, m)))
  \/ \E P \in 1..2, m \in Mods \ {1, 2} : (Focus = "gaps" => P = 1) /\ Do("attach_end", <<P, m>>, Lift(w, AttachEnd(w.p, P, m)))
  \/ \E P \in 1..2 : (Focus \in {"multictl", "gaps", "options"} => P = 1) /\ Do("attach_none", <<P>>, Lift(w, AttachNone(w.p, P)))
  \/ \E P \in 1..2, q \in 0..NP : Do("attach_pattern", <<P, q>>, Lift(w, AttachPattern(w.p, P, q)))
  \/ \E P \in 1..2 : \E A \in Operands(P), B \in Operands(P) :
        /\ (Focus = "multictl" => P = 1 /\ Len(A) = 1 /\ A[1].m = MC /\ \A k \in 1..Len(B) : B[k].m \in Plain)
        /\ (Focus \in {"gaps", "options", "clones"} => P = 1 /\ Len(A) = 1 /\ Len(B) = 1)
        /\ Do("connect", <<P, A, B>>, SysConnect(w, P, A, B))
  \/ \E P \in 1..2 : (Focus \in {"multictl", "gaps", "options", "clones"} => P = 1) /\ Do("saveload", <<P>>, SysSaveLoad(w, P))
  \/ \E m \in Plain, v \in {-1, 0, 700, 1024, 1025} : Do("set_volume", <<m, v>>, SysSetVol(w, m, v))
  \/ \E i \in 1..MaxLinks, c \in {0, 1} : i <= 4 /\ Do("set_map", <<i, c>>, SysSetMap(w, i, c))
  \* (a mapping that names controller 1 of a module without controllers - an Output, the MultiCtl itself - is outside the domain)
  \/ \E v \in {0, 32768} : (\A x \in FeedTargets(w, MC) : x.mod \in Plain) /\ Do("feed", <<v>>, SysFeed(w, MC, v))
  \/ \E m \in Plain, k \in 1..2, v \in {0, 1} : Do("set_opt", <<m, k, v>>, SysSetOpt(w, m, k, v))
  \/ Do("failed_load", <<>>, SysFailedLoad(w))
  \/ \E n \in 0..(NM + 1), fail \in BOOLEAN, sparse \in BOOLEAN : Do("bulk_edit", <<1, n, fail, sparse>>, SysBulk(w, 1, n, fail, sparse))
  \/ \E src \in Plain, dst \in Plain : src # dst /\ w.p.parent[dst] = 0 /\ Do("clone_module", <<src, dst>>, SysClone(w, src, dst))
  \* pattern 1 is a Pattern with a note cell; even pattern ids stand for PatternClone objects
  \/ \E q \in {1}, m \in Mods : Do("set_note_mod", <<q, m>>, Lift(w, SetNoteMod(w.p, q, m)))
  \/ \E q \in {1}, n \in {32768, 65535} : Do("set_note_num", <<q, n>>, Lift(w, SetNoteNum(w.p, q, n)))
  \/ \E q \in {1} : Do("get_note_mod", <<q>>, Lift(w, GetNoteMod(w.p, q)))
Bound == /\ \A P \in 1..2 : Len(w.p.slots[P]) <= MaxSlots /\ Len(w.p.pats[P]) <= 2
         /\ \A m \in Mods : Len(w.t[m].inl) <= MaxLinks /\ Len(w.t[m].outl) <= MaxLinks
Inv == SysCoherent(w)
=============================================================================

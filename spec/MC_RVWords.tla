------------------------------- MODULE MC_RVWords -------------------------------
(* Every (old word, sub-field, new value) triple of the bounded word sets.       *)
EXTENDS RVWords
CONSTANT Full      \* TRUE: all 65536 note words; FALSE: boundary bytes
VARIABLES w, f
B == IF Full THEN 0..255 ELSE {0, 1, 2, 5, 7, 127, 128, 200, 254, 255}
NoteWords == {a * 256 + b : a \in B, b \in B}
VisWords == {lm + 32 * o + 256 * om + 65536 * sz + 16777216 * bg + 67108864 * sh :
               lm \in 0..4, o \in 0..1, om \in 0..7, sz \in {0, 1, 12, 255}, bg \in 0..3, sh \in 0..3}
Init == \/ f \in FieldsOfWord("note_ctl") \cup FieldsOfWord("note_val") /\ w \in NoteWords
        \/ f \in FieldsOfWord("vis") /\ w \in VisWords
        \/ f \in FieldsOfWord("smii") /\ w \in {a + 2 * c : a \in 0..1, c \in 0..17}
        \/ f \in FieldsOfWord("sfgs") /\ w \in 0..63
NewVals == CASE WordOf(f) \in {"note_ctl", "note_val"} -> 0..255 \cup {256, 511, -1}
             [] f = "vis_level_mode" -> 0..4
             [] f = "vis_orientation" -> 0..1
             [] f = "vis_oscilloscope_mode" -> 0..7
             [] f = "vis_oscilloscope_size" -> {-1, 0, 1, 12, 254, 255, 256, 1000}
             [] f \in {"vis_bg_transparency", "vis_shadow_opacity"} -> -1..5
             [] f = "smii_always" -> 0..1
             [] f = "smii_channel" -> 0..17
             [] OTHER -> 0..7
Next == \E v \in NewVals : /\ Assert(SetterCorrect(w, f, v), <<"SetterCorrect", w, f, v>>)
                           /\ w' = SetSub(w, f, v) /\ UNCHANGED f
VisStaysDefined == WordOf(f) = "vis" => VisDefined(w)
NoteWordInRange == WordOf(f) \in {"note_ctl", "note_val"} => w \in 0..65535
=============================================================================

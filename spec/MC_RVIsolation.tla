----------------------------- MODULE MC_RVIsolation -----------------------------
(* Two roots, NA list-valued attributes each with a class-level default container. *)
(* policy[a] says how a constructor / clone obtains the instance's container:      *)
(* "copy" (a fresh cell with the default's contents) or "alias" (the class cell).  *)
(* TLC shows NoSharing and the frame condition hold when every policy is "copy",   *)
(* and finds the violation as soon as one policy is "alias".                        *)
EXTENDS RVIsolation
CONSTANTS NA, MaxCells, Policies
VARIABLES policy, ref, val, next, made
vars == <<policy, ref, val, next, made>>
Roots == {"A", "B"}
Attrs == 1..NA
ClassCell(a) == a                          \* cells 1..NA are the class defaults
ClassCells == {ClassCell(a) : a \in Attrs}
Init == /\ policy \in [Attrs -> Policies]
        /\ ref = [r \in Roots |-> [a \in Attrs |-> 0]]     \* 0: not constructed
        /\ val = [c \in 1..MaxCells |-> 0]
        /\ next = NA + 1 /\ made = {}
Fresh(n) == next + n
Construct(r) ==
  /\ r \notin made /\ next + NA <= MaxCells
  /\ ref' = [ref EXCEPT ![r] = [a \in Attrs |-> IF policy[a] = "copy" THEN next + a - 1 ELSE ClassCell(a)]]
  /\ val' = [c \in 1..MaxCells |-> IF \E a \in Attrs : policy[a] = "copy" /\ c = next + a - 1
                                   THEN val[ClassCell(CHOOSE a \in Attrs : c = next + a - 1)] ELSE val[c]]
  /\ next' = next + NA /\ made' = made \cup {r} /\ UNCHANGED policy
Clone(r, s) ==      \* s := clone of r (through serialization: always fresh containers)
  /\ r \in made /\ s \notin made /\ next + NA <= MaxCells
  /\ ref' = [ref EXCEPT ![s] = [a \in Attrs |-> next + a - 1]]
  /\ val' = [c \in 1..MaxCells |-> IF c \in next..(next + NA - 1) THEN val[ref[r][c - next + 1]] ELSE val[c]]
  /\ next' = next + NA /\ made' = made \cup {s} /\ UNCHANGED policy
MutateInPlace(r, a) == /\ r \in made /\ val' = [val EXCEPT ![ref[r][a]] = 1 - @] /\ UNCHANGED <<policy, ref, next, made>>
Assign(r, a) == /\ r \in made /\ next + 1 <= MaxCells
                /\ ref' = [ref EXCEPT ![r][a] = next] /\ val' = [val EXCEPT ![next] = 1]
                /\ next' = next + 1 /\ UNCHANGED <<policy, made>>
Next == \/ \E r \in Roots : Construct(r)
        \/ \E r, s \in Roots : r # s /\ Clone(r, s)
        \/ \E r \in Roots, a \in Attrs : MutateInPlace(r, a) \/ Assign(r, a)
Spec == Init /\ [][Next]_vars
Reach == [r \in made |-> {ref[r][a] : a \in Attrs}]
Isolated == NoSharing(Reach, ClassCells)
Obs(r) == [a \in Attrs |-> val[ref[r][a]]]
(* frame condition: a step that mutates or assigns through one root leaves what the other root observes, and the class defaults *)
Frame == [][\A r \in Roots : \A a \in Attrs :
             (MutateInPlace(r, a) \/ Assign(r, a)) =>
                /\ \A s \in made \ {r} : Obs(s)' = Obs(s)
                /\ \A b \in Attrs : val'[ClassCell(b)] = val[ClassCell(b)]]_vars
=============================================================================

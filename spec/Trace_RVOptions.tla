---------------------------- MODULE Trace_RVOptions ----------------------------
(* Trace validation of option behaviour of real modules (C11): assignments,    *)
(* the options record found in written files (both contexts), and reload.      *)
EXTENDS RVOptions, TLCExt
Traces == JsonDeserialize(IOEnv.RV_TRACE_FILE)
VARIABLES tid, l, ok
TInit == tid \in 1..Len(Traces) /\ l = 1 /\ ok = TRUE
Ev == Traces[tid].events[l]
Say(clause, exp, got) ==
  PrintT(ToJson([v |-> "MISMATCH", id |-> Traces[tid].id, l |-> l, op |-> Ev.op, clause |-> clause, exp |-> exp, got |-> got]))
Check(good, clause, exp, got) == IF good THEN TRUE ELSE Say(clause, exp, got)

(* logged values are pairs <<name, logical value>> *)
AsFun(t, pairs) == [n \in OptNames(t) |-> LET k == CHOOSE k \in 1..Len(pairs) : pairs[k][1] = n IN pairs[k][2]]
Covered(t, pairs) == {pairs[k][1] : k \in 1..Len(pairs)} = OptNames(t)
ToStored(t, lg) == [n \in OptNames(t) |-> Stored(Opt(t, n), lg[n])]
ToLogical(t, sv) == [n \in OptNames(t) |-> Logical(Opt(t, n), sv[n])]
RECURSIVE Apply(_, _, _, _)
Apply(t, S, ops, k) == IF k > Len(ops) THEN S
                       ELSE Apply(t, UNION {SetOption(t, sv, ops[k][1], ops[k][2]) : sv \in S}, ops, k + 1)
ChunkOf(chunks, n) == IF \E k \in 1..Len(chunks) : chunks[k][1] = n
                      THEN <<chunks[CHOOSE k \in 1..Len(chunks) : chunks[k][1] = n][2]>> ELSE <<>>

StepEv(e) ==
  IF e.t \notin SpecTypes \/ Opts(e.t) = <<>> THEN Say("unknown-type", "", e.t) /\ ok' = FALSE
  ELSE IF ~Covered(e.t, e.logical) \/ (e.init # <<>> /\ ~Covered(e.t, e.init)) \/ \E k \in 1..Len(e.ops) : e.ops[k][1] \notin OptNames(e.t)
       THEN Say("option-names", SetToSeq(OptNames(e.t)), e.logical) /\ ok' = FALSE
  ELSE
  LET t == e.t
      \* e.init = <<>>: a freshly constructed module; otherwise the (logical) values of the loaded
      \* module the assignments were applied to
      start == IF e.init = <<>> THEN Defaults(t) ELSE ToStored(t, AsFun(t, e.init))
      expS == Apply(t, {start}, e.ops, 1)
      lg == AsFun(t, e.logical)
      st == ToStored(t, lg)
      g1 == st \in expS
      g2 == NeverBothOn(t, st)
      g3 == InBounds(t, st)
      rec == Pack(t, st)
      badf == {k \in 1..Len(e.files) : ChunkOf(e.files[k].chunks, SpecData[t].options_chnm) # <<rec>>}
      badl == {k \in 1..Len(e.files) : ~Covered(t, e.files[k].loaded) \/ AsFun(t, e.files[k].loaded) # lg}
      kf == IF badf = {} THEN 0 ELSE CHOOSE k \in badf : TRUE
      kl == IF badl = {} THEN 0 ELSE CHOOSE k \in badl : TRUE
  IN /\ Check(g1, "assignment-result", [k \in 1..Len(SetToSeq(expS)) |-> ToLogical(t, SetToSeq(expS)[k])], lg)
     /\ Check(g2, "exclusive-both-on", "never both on", lg)
     /\ Check(g3, "declared-bounds", "clamped", lg)
     /\ Check(badf = {}, "options-record:" \o (IF kf = 0 THEN "" ELSE e.files[kf].ctx), rec,
              IF kf = 0 THEN <<>> ELSE ChunkOf(e.files[kf].chunks, SpecData[t].options_chnm))
     /\ Check(badl = {}, "reloaded-values:" \o (IF kl = 0 THEN "" ELSE e.files[kl].ctx), lg,
              IF kl = 0 THEN <<>> ELSE e.files[kl].loaded)
     /\ ok' = (ok /\ g1 /\ g2 /\ g3 /\ badf = {} /\ badl = {})

Step == /\ l <= Len(Traces[tid].events) /\ StepEv(Ev) /\ l' = l + 1 /\ UNCHANGED tid
Done == /\ l = Len(Traces[tid].events) + 1
        /\ PrintT(ToJson([v |-> IF ok THEN "ACCEPT" ELSE "REJECT", id |-> Traces[tid].id, n |-> l - 1]))
        /\ l' = l + 1 /\ UNCHANGED <<tid, ok>>
TNext == Step \/ Done
=============================================================================

------------------------------- MODULE MC_RVLoad -------------------------------
(* Every schedule of nested loads (depth <= MaxDepth), reads and a fault at any   *)
(* point, for both initial values of the setting and both ways of opening.        *)
EXTENDS RVLoad
CONSTANTS MaxDepth, MaxReads
VARIABLES flag0, reads
mvars == <<vars, flag0, reads>>
Init == /\ flag0 \in BOOLEAN /\ flag = flag0 /\ frames = <<>> /\ open = {} /\ pc = "run" /\ reads = 0
Next == \/ /\ Len(frames) < MaxDepth /\ pc = "run"
           /\ (frames = <<>> => reads = 0)
           /\ \E h \in {0, Len(frames) + 1} : (h # 0 => frames = <<>>) /\ Enter(h)     \* only the outer load opens a path
           /\ UNCHANGED <<flag0, reads>>
        \/ /\ reads < MaxReads /\ ReadOk /\ reads' = reads + 1 /\ UNCHANGED flag0
        \/ /\ ReadFail /\ UNCHANGED <<flag0, reads>>
        \/ /\ Exit /\ UNCHANGED <<flag0, reads>>
        \/ /\ Unwind /\ UNCHANGED <<flag0, reads>>
Spec == Init /\ [][Next]_mvars
RestoredInv == Restored(flag0)
LenientInv  == LenientInside
DoneMeansEmpty == pc = "done" => frames = <<>>
=============================================================================

------------------------------ MODULE Trace_RVCtl ------------------------------
(* Trace validation of controller behaviour of real module instances (C09, C10). *)
EXTENDS RVCtl, TLCExt, SequencesExt
Traces == JsonDeserialize(IOEnv.RV_TRACE_FILE)
VARIABLES tid, l, ok
TInit == tid \in 1..Len(Traces) /\ l = 1 /\ ok = TRUE
Ev == Traces[tid].events[l]
Say(clause, exp, got) ==
  PrintT(ToJson([v |-> "MISMATCH", id |-> Traces[tid].id, l |-> l, op |-> Ev.op, clause |-> clause, exp |-> exp, got |-> got]))
Check(good, clause, exp, got) == IF good THEN TRUE ELSE Say(clause, exp, got)
C(e) == SpecData[e.t].ctls[e.i]

(* affine runs: [v0, r0, n] stands for v0+k |-> r0+k, k = 0..n-1 (lossless run-length form) *)
RunsOK(c, u, runs, F(_)) == \A k \in 1..Len(runs) :
    LET r == runs[k] IN F(r[1]) = r[2] /\ F(r[1] + r[3] - 1) = r[2] + r[3] - 1
RunsCover(runs, lo, hi) ==
    /\ Len(runs) >= 1 /\ runs[1][1] = lo /\ runs[Len(runs)][1] + runs[Len(runs)][3] - 1 = hi
    /\ \A k \in 1..(Len(runs) - 1) : runs[k][1] + runs[k][3] = runs[k+1][1]

CtlOf(x) == SpecData[x[1]].ctls[x[2]]      \* x = <<type, index, unit>>
KnownCtl(x) == x[1] \in SpecTypes /\ x[2] \in 1..Len(SpecData[x[1]].ctls)
RawsOK(e, x) ==
  LET c == CtlOf(x)  u == x[3]  lo == CMin(c, u)  hi == CMax(c, u) IN
  /\ e.lo = lo /\ e.hi = hi
  /\ (e.complete => RunsCover(e.raws, lo, hi) /\ RunsCover(e.back, lo, hi))
  /\ \A k \in 1..Len(e.raws) : e.raws[k][1] >= lo /\ e.raws[k][1] + e.raws[k][3] - 1 <= hi
  /\ RunsOK(c, u, e.raws, LAMBDA v : ToRaw(c, u, v))
  /\ RunsOK(c, u, e.back, LAMBDA v : v)
  /\ \A k \in 1..Len(e.raws) : c.kind = "nooffset" \/ e.raws[k][2] >= 0
  /\ e.patends[1] = 0 /\ (hi > lo => e.patends[2] = (IF c.kind = "compact" THEN hi - lo ELSE 32768))
WhyRaws(e, x) ==
  LET c == CtlOf(x)  u == x[3]  lo == CMin(c, u)  hi == CMax(c, u) IN
  IF ~(e.lo = lo /\ e.hi = hi) THEN "declared-range"
  ELSE IF ~(e.complete => RunsCover(e.raws, lo, hi) /\ RunsCover(e.back, lo, hi)) THEN "coverage"
  ELSE IF ~RunsOK(c, u, e.raws, LAMBDA v : ToRaw(c, u, v)) THEN "to-raw"
  ELSE IF ~RunsOK(c, u, e.back, LAMBDA v : v) THEN "from-raw-of-to-raw"
  ELSE IF ~(\A k \in 1..Len(e.raws) : c.kind = "nooffset" \/ e.raws[k][2] >= 0) THEN "raw-negative"
  ELSE "pattern-end-points"

StepEv(e) ==
  CASE e.op \in {"fresh", "set", "members"} ->
   (IF ~KnownCtl(<<e.t, e.i, 0>>) THEN Say("unknown-controller", "", <<e.t, e.i>>) /\ ok' = FALSE
    ELSE LET c == SpecData[e.t].ctls[e.i] IN
    CASE e.op = "fresh" ->
         LET g == e.got = c.default /\ e.name = c.name IN
         Check(g, "fresh-default", <<c.name, c.default>>, <<e.name, e.got>>) /\ ok' = (ok /\ g)
      [] e.op = "set" ->
         LET r == SetRes(c, e.u, e.strict, e.old, e.arg)
             g1 == OutcomeMatches(r.out, e.outcome)
             g2 == ~e.has \/ e.got \in r.vals
             g3 == (r.out = "ok") => e.has IN   \* (for "not-cve" a constructor may still fail for other reasons)
         /\ Check(g1, "set-outcome:" \o e.how, r.out, e.outcome)
         /\ Check(g2, "set-readback:" \o e.how, SetToSeq(r.vals), e.got)
         /\ Check(g3, "set-constructed:" \o e.how, "object", "none")
         /\ ok' = (ok /\ g1 /\ g2 /\ g3)
      [] e.op = "members" ->       \* enum members / booleans: value -> raw -> value
         LET exp == IF c.kind = "enum" THEN MemberValues(c) ELSE {0, 1}
             g1 == {e.vals[k][1] : k \in 1..Len(e.vals)} = exp
             g2 == \A k \in 1..Len(e.vals) : e.vals[k][2] = ToRaw(c, 0, e.vals[k][1]) /\ e.vals[k][3] = e.vals[k][1] IN
         /\ Check(g1, "member-set", SetToSeq(exp), e.vals)
         /\ Check(g2, "member-raw-roundtrip", "raw = value, back = value", e.vals)
         /\ ok' = (ok /\ g1 /\ g2))
  [] e.op = "raws" ->     \* get_raw / set_raw over a range, in affine runs, shared by the listed controllers
    LET bad == {k \in 1..Len(e.ctls) : ~KnownCtl(e.ctls[k]) \/ ~RawsOK(e, e.ctls[k])}
        k0 == IF bad = {} THEN 0 ELSE CHOOSE k \in bad : TRUE IN
    /\ Check(bad = {}, IF k0 = 0 THEN "raws" ELSE IF KnownCtl(e.ctls[k0]) THEN WhyRaws(e, e.ctls[k0]) ELSE "unknown-controller",
             IF k0 = 0 THEN <<>> ELSE e.ctls[k0], <<e.lo, e.hi, e.raws, e.back, e.patends>>)
    /\ ok' = (ok /\ bad = {})
  [] e.op = "filevalues" ->   \* a controller object the YAML does not list (stored in a type-specific record): every value of its
                              \* declared range written to a file and loaded back, in affine runs - one run lo..hi with back = v
    LET g == e.back = <<<<e.lo, e.lo, e.hi - e.lo + 1>>>> IN
    /\ Check(g, "file-value-not-restored:" \o e.name, <<e.lo, e.hi>>, e.back)
    /\ ok' = (ok /\ g)
  [] e.op = "pattern" ->  \* pattern_value over the complete range, shared by the listed controllers
    LET bad == {k \in 1..Len(e.ctls) : ~KnownCtl(e.ctls[k]) \/ ~PatEnvelope(CtlOf(e.ctls[k]), e.ctls[k][3], e.arr)}
        k0 == IF bad = {} THEN 0 ELSE CHOOSE k \in bad : TRUE IN
    /\ Check(bad = {}, "pattern-envelope", IF k0 = 0 THEN <<>> ELSE e.ctls[k0],
             <<Len(e.arr), e.arr[1], e.arr[Len(e.arr)]>>)
    /\ ok' = (ok /\ bad = {})
  [] OTHER -> Say("unknown-op", "", e.op) /\ ok' = FALSE

Step == /\ l <= Len(Traces[tid].events) /\ StepEv(Ev) /\ l' = l + 1 /\ UNCHANGED tid
Done == /\ l = Len(Traces[tid].events) + 1
        /\ PrintT(ToJson([v |-> IF ok THEN "ACCEPT" ELSE "REJECT", id |-> Traces[tid].id, n |-> l - 1]))
        /\ l' = l + 1 /\ UNCHANGED <<tid, ok>>
TNext == Step \/ Done
=============================================================================

--------------------------------- MODULE RVCtl ---------------------------------
(***************************************************************************)
(* Controllers (properties C09, C10, and the load path of C05).            *)
(* A controller c is a record of RVSpecData; u is the current value of the *)
(* unit controller it depends on (ignored unless c.kind = "dep").          *)
(***************************************************************************)
EXTENDS RVSpecData

InRange(c, u, v) == CMin(c, u) <= v /\ v <= CMax(c, u)

(* ---- stored (file) encoding ------------------------------------------- *)
(* v minus the range minimum when the minimum is negative, v itself        *)
(* otherwise and for the no-offset kind; enum value; boolean as 0/1        *)
ToRaw(c, u, v) ==
  CASE c.kind \in {"range", "compact", "dep"} -> IF CMin(c, u) < 0 THEN v - CMin(c, u) ELSE v
    [] OTHER -> v
FromRaw(c, u, r) ==
  CASE c.kind \in {"range", "compact", "dep"} -> IF CMin(c, u) < 0 THEN r + CMin(c, u) ELSE r
    [] c.kind = "bool" -> IF r = 0 THEN 0 ELSE 1
    [] OTHER -> r

(* ---- pattern-column encoding ------------------------------------------ *)
PatExact(c, u, v) == LET lo == CMin(c, u) hi == CMax(c, u) IN
  IF c.kind = "compact" THEN v - lo ELSE ((v - lo) * 32768) \div (hi - lo)
PatEnvelope(c, u, arr) ==         \* arr[i] is the encoding of CMin + i - 1, over the whole range
  LET lo == CMin(c, u) hi == CMax(c, u) IN
  /\ Len(arr) = hi - lo + 1
  /\ IF c.kind = "compact" THEN \A i \in 1..Len(arr) : arr[i] = i - 1
     ELSE /\ arr[1] = 0 /\ (hi > lo => arr[Len(arr)] = 32768)
          /\ \A i \in 1..(Len(arr) - 1) : arr[i] <= arr[i+1]

(* ---- assignment (attribute or constructor keyword) ---------------------- *)
(* arg: [k |-> "int", v |-> n] | [k |-> "name", n |-> "member"]              *)
(* result: outcome and the set of values the controller may hold afterwards  *)
SetRes(c, u, strict, old, arg) ==
  CASE c.kind \in RangeKinds ->
         IF InRange(c, u, arg.v) THEN [out |-> "ok", vals |-> {arg.v}]
         ELSE IF strict THEN [out |-> "ControllerValueError", vals |-> {old}]
         ELSE [out |-> "not-cve", vals |-> {arg.v, old}]  \* lenient: the controller-value error is NOT raised (only logged);
                                                          \* if the call succeeds the value is the new or the old one
    [] c.kind = "dep"  -> [out |-> "ok", vals |-> {arg.v}]  \* unit-dependent ranges only warn
    [] c.kind = "enum" ->
         IF arg.k = "name"
         THEN IF arg.n \in MemberNames(c) THEN [out |-> "ok", vals |-> {ValueOfName(c, arg.n)}]
              ELSE [out |-> "exception", vals |-> {old}]
         ELSE IF arg.v \in MemberValues(c) THEN [out |-> "ok", vals |-> {arg.v}]
              ELSE [out |-> "exception", vals |-> {old}]
    [] c.kind = "bool" -> [out |-> "ok", vals |-> {IF arg.v = 0 THEN 0 ELSE 1}]

OutcomeMatches(expected, got) ==
  IF expected = "exception" THEN got # "ok" ELSE IF expected = "not-cve" THEN got # "ControllerValueError" ELSE got = expected

(* ---- design-level theorems, checked by MC_RVCtl over every value of every class ---- *)
Bijective(c, u) == \A v \in CMin(c, u)..CMax(c, u) :
                      /\ FromRaw(c, u, ToRaw(c, u, v)) = v
                      /\ (CMin(c, u) < 0 /\ c.kind # "nooffset" => ToRaw(c, u, v) >= 0)
Injective(c, u) == \A v, w \in CMin(c, u)..CMax(c, u) : v # w => ToRaw(c, u, v) # ToRaw(c, u, w)
=============================================================================

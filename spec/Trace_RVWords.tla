------------------------------ MODULE Trace_RVWords ------------------------------
(* Trace validation of real Note / Pattern / Visualization / module / project     *)
(* objects against RVWords (C12).  Events carry arrays so that one event covers   *)
(* a whole axis of old words or new values.                                       *)
EXTENDS RVWords, Json, IOUtils, TLCExt
Traces == JsonDeserialize(IOEnv.RV_TRACE_FILE)
NoteCmds == LET q == JsonDeserialize(IOEnv.RV_NOTECMDS) IN {q[i] : i \in 1..Len(q)}
VARIABLES tid, l, ok
TInit == tid \in 1..Len(Traces) /\ l = 1 /\ ok = TRUE
Ev == Traces[tid].events[l]
Say(clause, exp, got) ==
  PrintT(ToJson([v |-> "MISMATCH", id |-> Traces[tid].id, l |-> l, op |-> Ev.op, clause |-> clause, exp |-> exp, got |-> got]))
Check(good, clause, exp, got) == IF good THEN TRUE ELSE Say(clause, exp, got)

StepEv(e) ==
  CASE e.op = "sub" ->        \* one setter, one new value, an axis of old words: results[i] = <<word after, read back>>
    (IF e.f \notin DOMAIN Fields THEN Say("unknown-field", "", e.f) /\ ok' = FALSE ELSE
     LET bad == {i \in 1..Len(e.olds) : e.res[i][1] # SetSub(e.olds[i], e.f, e.new) \/ e.res[i][2] # Lim(e.f, e.new)}
         i0 == IF bad = {} THEN 0 ELSE CHOOSE i \in bad : \A j \in bad : i <= j IN
     /\ Check(bad = {} /\ Len(e.res) = Len(e.olds), "setter:" \o e.f,
              IF i0 = 0 THEN <<>> ELSE <<e.olds[i0], e.new, SetSub(e.olds[i0], e.f, e.new), Lim(e.f, e.new)>>,
              IF i0 = 0 THEN <<>> ELSE <<e.olds[i0], e.new, e.res[i0][1], e.res[i0][2]>>)
     /\ ok' = (ok /\ bad = {} /\ Len(e.res) = Len(e.olds)))
  [] e.op = "get" ->          \* getters on an axis of words: res[i] = sequence of <<field, value>>
    (LET bad == {i \in 1..Len(e.words) : \E k \in 1..Len(e.res[i]) :
                    e.res[i][k][1] \notin FieldsOfWord(e.word) \/ e.res[i][k][2] # GetSub(e.words[i], e.res[i][k][1])}
         i0 == IF bad = {} THEN 0 ELSE CHOOSE i \in bad : TRUE IN
     /\ Check(bad = {}, "getter:" \o e.word, IF i0 = 0 THEN <<>> ELSE <<e.words[i0]>>, IF i0 = 0 THEN <<>> ELSE e.res[i0])
     /\ ok' = (ok /\ bad = {}))
  [] e.op = "notes" ->        \* encode / decode of cells
    (LET bad == {i \in 1..Len(e.cells) : \/ ~NoteInDomain(e.cells[i], NoteCmds)
                                        \/ e.bytes[i] # NoteBytes(e.cells[i])
                                        \/ e.decoded[i] # e.cells[i] \/ Len(e.bytes[i]) # 8}
         i0 == IF bad = {} THEN 0 ELSE CHOOSE i \in bad : TRUE IN
     /\ Check(bad = {}, "note-codec", IF i0 = 0 THEN <<>> ELSE <<e.cells[i0], NoteBytes(e.cells[i0])>>,
              IF i0 = 0 THEN <<>> ELSE <<e.bytes[i0], e.decoded[i0]>>)
     /\ ok' = (ok /\ bad = {}))
  [] e.op = "pattern" ->      \* a byte image put into a pattern: cells row-major, image reproduced, also through a file
    (LET cells == CellsOf(e.image)
         g0 == Len(e.image) = e.lines * e.tracks * 8
         g1 == e.cells = cells                    \* data[line][track] flattened by the harness in row-major order
         g2 == e.back = e.image
         g3 == e.pdta = e.image /\ e.reloaded = LoadedImage(e.image, e.vers) IN
     /\ Check(g0, "image-size", e.lines * e.tracks * 8, Len(e.image))
     /\ Check(g1, "row-major-cells", cells, e.cells)
     /\ Check(g2, "raw-data-identity", e.image, e.back)
     /\ Check(g3, "file-identity", <<e.vers, LoadedImage(e.image, e.vers)>>, <<e.pdta, e.reloaded>>)
     /\ ok' = (ok /\ g0 /\ g1 /\ g2 /\ g3))
  [] e.op = "packed" ->       \* a word that exists only in the file (SMII, SFGS): fields -> file word -> fields
    (LET fs == FieldsOfWord(e.word)
         w == FoldLeft(LAMBDA acc, p : SetSub(acc, p[1], p[2]), 0, e.fields)
         g1 == e.fileword = w
         g2 == \A k \in 1..Len(e.loaded) : e.loaded[k][2] = GetSub(w, e.loaded[k][1]) IN
     /\ Check(g1, "packed-word:" \o e.word, w, e.fileword)
     /\ Check(g2, "unpacked-fields:" \o e.word, e.fields, e.loaded)
     /\ ok' = (ok /\ g1 /\ g2))
  [] OTHER -> Say("unknown-op", "", e.op) /\ ok' = FALSE

Step == /\ l <= Len(Traces[tid].events) /\ StepEv(Ev) /\ l' = l + 1 /\ UNCHANGED tid
Done == /\ l = Len(Traces[tid].events) + 1
        /\ PrintT(ToJson([v |-> IF ok THEN "ACCEPT" ELSE "REJECT", id |-> Traces[tid].id, n |-> l - 1]))
        /\ l' = l + 1 /\ UNCHANGED <<tid, ok>>
TNext == Step \/ Done
=============================================================================

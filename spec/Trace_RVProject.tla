--------------------------- MODULE Trace_RVProject ---------------------------
(* Batch trace validation of module/pattern ownership histories (C14). *)
EXTENDS RVProject, Json, IOUtils, TLCExt
Traces == JsonDeserialize(IOEnv.RV_TRACE_FILE)
VARIABLES st, tid, l, ok
TInit == /\ tid \in 1..Len(Traces) /\ l = 1 /\ ok = TRUE
         /\ st = InitState(Traces[tid].nm, Traces[tid].np)
Ev == Traces[tid].events[l]
Say(clause, exp, got) ==
  PrintT(ToJson([v |-> "MISMATCH", id |-> Traces[tid].id, l |-> l, op |-> Ev.op, clause |-> clause, exp |-> exp, got |-> got]))
Check(good, clause, exp, got) == IF good THEN TRUE ELSE Say(clause, exp, got)

Expected(e) ==
  CASE e.op \in {"attach", "new_module"} -> Attach(st, e.args[1], e.args[2])
    [] e.op = "attach_end"     -> AttachEnd(st, e.args[1], e.args[2])
    [] e.op = "set_note_num"   -> SetNoteNum(st, e.args[1], e.args[2])
    [] e.op = "attach_none"    -> AttachNone(st, e.args[1])
    [] e.op = "attach_pattern" -> AttachPattern(st, e.args[1], e.args[2])
    [] e.op = "iadd"           -> IAdd(st, e.args[1], e.args[2])
    [] e.op = "saveload"       -> SaveLoad(st, e.args[1])
    [] e.op = "load_without_output" -> LoadNoOutput(st, e.args[1])
    [] e.op = "remove_module"  -> RemoveMod(st, e.args[1], e.args[2])
    [] e.op = "set_note_mod"   -> SetNoteMod(st, e.args[1], e.args[2])
    [] e.op = "get_note_mod"   -> GetNoteMod(st, e.args[1])

Ops == {"attach", "new_module", "attach_end", "attach_none", "attach_pattern", "iadd", "saveload", "load_without_output", "remove_module", "set_note_mod", "set_note_num", "get_note_mod"}
RetOK(e, r) ==
  CASE e.op = "get_note_mod" -> r.outcome # "ok" \/ e.ret \in r.ret
    [] e.op \in {"attach", "new_module", "attach_end", "attach_pattern"} -> r.outcome # "ok" \/ e.ret = r.ret
    [] OTHER -> TRUE
TypeOK(p) ==
  LET nm == Len(p.index)  np == Len(p.pproj) IN
  /\ Len(p.slots) = 2 /\ Len(p.pats) = 2 /\ Len(p.parent) = nm /\ Len(p.nmod) = np /\ Len(p.output) = 2
  /\ \A P \in 1..2 : p.output[P] \in 0..nm
  /\ \A P \in 1..2 : (\A i \in 1..Len(p.slots[P]) : p.slots[P][i] \in 0..nm) /\ (\A i \in 1..Len(p.pats[P]) : p.pats[P][i] \in 0..np)
  /\ \A m \in 1..nm : p.parent[m] \in 0..2 /\ p.index[m] >= -1
  /\ \A q \in 1..np : p.pproj[q] \in 0..2 /\ p.nmod[q] >= 0
Norm(p) == [slots |-> p.slots, index |-> p.index, parent |-> p.parent, output |-> p.output, pats |-> p.pats, pproj |-> p.pproj, nmod |-> p.nmod]
Step ==
  /\ l <= Len(Traces[tid].events)
  /\ LET e == Ev IN
     IF e.op = "inject" THEN
        LET g == TypeOK(e.post) /\ Coherent(Norm(e.post)) IN
        Check(g, "inject-coherent", "coherent", e.post) /\ ok' = (ok /\ g) /\ st' = Norm(e.post)
     ELSE IF e.op \notin Ops THEN Say("unknown-op", "", e.op) /\ ok' = FALSE /\ UNCHANGED st
     ELSE IF ~TypeOK(e.post) THEN     \* e.g. a module object the harness does not know sits in a list
        Say("post-shape", "ids in range", e.post) /\ ok' = FALSE /\ UNCHANGED st
     ELSE IF ~CoherentH(st) THEN      \* already rejected; no expectation is defined from an incoherent state
        LET g3 == CoherentH(Norm(e.post)) IN
        Check(g3, "Coherent:" \o WhyIncoherent(Norm(e.post)), "coherent", e.post) /\ ok' = FALSE /\ st' = Norm(e.post)
     ELSE LET r == Expected(e)  got == Norm(e.post)
              g1 == e.outcome = r.outcome
              g2 == got \in r.posts
              g3 == IF (\E P \in 1..2 : Headless(st, P)) \/ Stale(st) # {} \/ e.op \in {"load_without_output", "remove_module"}
                    THEN CoherentH(got) ELSE Coherent(got)
              g4 == RetOK(e, r) IN
          /\ Check(g1, "outcome", r.outcome, e.outcome)
          /\ Check(g2, "post-state", SetToSeq(r.posts), got)
          /\ Check(g3, "Coherent:" \o WhyIncoherent(got), "coherent", got)
          /\ Check(g4, "return-value", r.ret, e.ret)
          /\ ok' = (ok /\ g1 /\ g2 /\ g3 /\ g4)
          /\ st' = got
  /\ l' = l + 1 /\ UNCHANGED tid
Done == /\ l = Len(Traces[tid].events) + 1
        /\ PrintT(ToJson([v |-> IF ok THEN "ACCEPT" ELSE "REJECT", id |-> Traces[tid].id, n |-> l - 1]))
        /\ l' = l + 1 /\ UNCHANGED <<st, tid, ok>>
TNext == Step \/ Done
=============================================================================

-------------------------------- MODULE RVBytes --------------------------------
(* Byte-level codecs.  Integers are TLC ints (|v| < 2^31); unsigned 32-bit fields   *)
(* that may exceed 2^31-1 are pairs of 16-bit limbs <<lo, hi>>.  Little endian.      *)
EXTENDS Integers, Sequences, SequencesExt

Enc8(v)   == <<v % 256>>                                    \* two's complement for negative v
Enc16(v)  == <<v % 256, (v \div 256) % 256>>
Enc32(v)  == Enc16(v % 65536) \o Enc16((v \div 65536) % 65536)
EncL32(l) == Enc16(l[1]) \o Enc16(l[2])                     \* u32 as limbs <<lo, hi>>
DecU8(b)  == b[1]
DecI8(b)  == IF b[1] >= 128 THEN b[1] - 256 ELSE b[1]
DecU16(b) == b[1] + 256 * b[2]
DecL32(b) == <<DecU16(SubSeq(b, 1, 2)), DecU16(SubSeq(b, 3, 4))>>
DecI32(b) == LET lo == DecU16(SubSeq(b, 1, 2))  hi == DecU16(SubSeq(b, 3, 4)) IN
             IF hi >= 32768 THEN (hi - 65536) * 65536 + lo ELSE hi * 65536 + lo
LInt(l)   == l[1] + 65536 * l[2]                            \* limbs -> int, only when it fits
IntL(v)   == <<v % 65536, (v \div 65536) % 65536>>
CStr(bs)  == bs \o <<0>>
Zeros(n)  == [i \in 1..n |-> 0]
Pad(bs, n) == IF Len(bs) >= n THEN SubSeq(bs, 1, n) ELSE bs \o Zeros(n - Len(bs))
Cut0(bs)  == IF \E i \in 1..Len(bs) : bs[i] = 0
             THEN SubSeq(bs, 1, (CHOOSE i \in 1..Len(bs) : bs[i] = 0 /\ \A j \in 1..(i-1) : bs[j] # 0) - 1) ELSE bs
RStrip0(bs) == IF \E i \in 1..Len(bs) : bs[i] # 0
               THEN SubSeq(bs, 1, CHOOSE i \in 1..Len(bs) : bs[i] # 0 /\ \A j \in (i+1)..Len(bs) : bs[j] = 0) ELSE <<>>
IsCont(b) == b >= 128 /\ b < 192
(* longest prefix of at most n bytes that does not end inside a multi-byte UTF-8 sequence *)
Utf8Prefix(bs, n) == IF Len(bs) <= n THEN bs ELSE
   LET k == CHOOSE k \in 0..n : ~IsCont(bs[k+1]) /\ \A j \in (k+1)..n : IsCont(bs[j+1]) IN SubSeq(bs, 1, k)
Slice(b, off, n) == SubSeq(b, off + 1, IF off + n <= Len(b) THEN off + n ELSE Len(b))   \* zero-based offset; short at the end of b
HasBytes(b, off, n) == Len(b) >= off + n
=============================================================================

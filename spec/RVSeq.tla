--------------------------------- MODULE RVSeq ---------------------------------
(* Small sequence helpers shared by the specifications. *)
EXTENDS Integers, Sequences
Has(q, x)     == \E i \in 1..Len(q) : q[i] = x
IndexOf(q, x) == CHOOSE i \in 1..Len(q) : q[i] = x /\ \A j \in 1..(i-1) : q[j] # x
=============================================================================

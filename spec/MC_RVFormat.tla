------------------------------- MODULE MC_RVFormat -------------------------------
(***************************************************************************)
(* Self-consistency of the format definition, explored by TLC before it is *)
(* used as an oracle.  Seeds are small abstract objects (projections of    *)
(* real objects); a step replaces one leaf by another in-domain value      *)
(* (catalogue of leaf paths and alternative values supplied with the seed); *)
(* up to MaxDepth leaves are varied at a time.                             *)
(*   RW        Read(Write(s)) = Norm(s)                                    *)
(*   Idem      Write(Read(Write(s))) = Write(s)        (C05 at design level)*)
(*   Struct    every structural rule holds on Write(s)                      *)
(*   Unknown   an unknown chunk inserted at any position changes nothing    *)
(*   Trunc     fewer CVALs than controllers leave the rest at defaults      *)
(***************************************************************************)
EXTENDS RVFormat, TLCExt
CONSTANTS MaxDepth, UnknownEvery
Seeds == JsonDeserialize(IOEnv.RV_SEEDS)
VARIABLES sid, obj, depth
vars == <<sid, obj, depth>>
RECURSIVE SetPath(_, _, _)
SetPath(o, path, v) == IF path = <<>> THEN v ELSE [o EXCEPT ![Head(path)] = SetPath(@, Tail(path), v)]
Init == sid \in 1..Len(Seeds) /\ obj = Seeds[sid].obj /\ depth = 0
Next == /\ depth < MaxDepth
        /\ \E k \in 1..Len(Seeds[sid].muts) : \E j \in 1..Len(Seeds[sid].muts[k].vals) :
              obj' = SetPath(obj, Seeds[sid].muts[k].path, Seeds[sid].muts[k].vals[j])
        /\ depth' = depth + 1 /\ UNCHANGED sid
W == Write(obj)
RW     == DiffObj(Norm(Read(W)), Norm(obj)) = <<>>
Idem   == Write(Read(W)) = Write(Norm(obj))
Struct == StructBad(W) = {}
Junk   == C("XxXx", <<1, 2, 3>>)
InsAfter(q, i, x) == SubSeq(q, 1, i) \o <<x>> \o SubSeq(q, i + 1, Len(q))
Unknown == depth > 0 \/ \A i \in 1..Len(W) : (i % UnknownEvery = sid % UnknownEvery) => Read(InsAfter(W, i, Junk)) = Read(W)
=============================================================================

------------------------------ MODULE Trace_RVLoad ------------------------------
(* Trace validation of real read_sunvox_file calls under fault injection (C18).   *)
(* Events: enter (flag0, kind), io (a read/seek/tell on the outer stream with the  *)
(* setting observed at that moment), nested_enter / nested_exit (a load started by *)
(* the library for an embedded project or effect), return / raise.                 *)
EXTENDS RVLoad, Json, IOUtils, TLCExt
Traces == JsonDeserialize(IOEnv.RV_TRACE_FILE)
VARIABLES tid, l, ok, flag0
TInit == /\ tid \in 1..Len(Traces) /\ l = 1 /\ ok = TRUE
         /\ flag0 = Traces[tid].flag0 /\ flag = Traces[tid].flag0 /\ frames = <<>> /\ open = {} /\ pc = "run"
Ev == Traces[tid].events[l]
Say(clause, exp, got) ==
  PrintT(ToJson([v |-> "MISMATCH", id |-> Traces[tid].id, l |-> l, op |-> Ev.op, clause |-> clause, exp |-> exp, got |-> got]))
Check(good, clause, exp, got) == IF good THEN TRUE ELSE Say(clause, exp, got)
(* continue from the implementation's observed setting so that the rest of the trace is examined *)
Sync(f) == flag' = f

StepEv(e) ==
  CASE e.op = "enter" ->
       /\ frames' = Append(frames, [saved |-> flag, handle |-> IF e.kind = "path" THEN 1 ELSE 0])
       /\ open' = (IF e.kind = "path" THEN {1} ELSE {}) /\ flag' = OnRead /\ UNCHANGED <<pc, ok>>
    [] e.op = "io" ->
       LET g == frames # <<>> /\ e.flag = flag IN
       /\ Check(g, "setting-during-load", flag, e.flag)
       /\ Sync(e.flag) /\ UNCHANGED <<frames, open, pc>> /\ ok' = (ok /\ g)
    [] e.op = "nested_enter" ->
       LET g == e.flag_before = flag IN
       /\ Check(g, "setting-before-nested-load", flag, e.flag_before)
       /\ frames' = Append(frames, [saved |-> e.flag_before, handle |-> 0]) /\ flag' = OnRead
       /\ UNCHANGED <<open, pc>> /\ ok' = (ok /\ g)
    [] e.op = "nested_exit" ->
       (IF Len(frames) < 2 THEN Say("nested-exit-without-enter", "", "") /\ ok' = FALSE /\ UNCHANGED vars
        ELSE LET g == e.flag_after = Last(frames).saved IN
             /\ Check(g, "setting-after-nested-load", Last(frames).saved, e.flag_after)
             /\ frames' = Front(frames) /\ Sync(e.flag_after) /\ UNCHANGED <<open, pc>> /\ ok' = (ok /\ g))
    [] e.op \in {"return", "raise"} ->
       LET g1 == e.flag = flag0
           g2 == (open # {}) => e.closed
           g3 == e.op = "raise" \/ Len(frames) = 1 IN
       /\ Check(g1, "setting-restored-after-" \o e.op, flag0, e.flag)
       /\ Check(g2, "file-closed-after-" \o e.op, "closed", "open")
       /\ Check(g3, "nested-load-still-active-at-return", 1, Len(frames))
       /\ frames' = <<>> /\ open' = {} /\ flag' = e.flag /\ pc' = "done" /\ ok' = (ok /\ g1 /\ g2 /\ g3)
    [] e.op = "strict_use" ->      \* after the load: the out-of-range values the (lenient) load met, assigned to fresh objects of
                                   \* the same types under the session's setting - a strict session refuses every one of them
       LET g == ~flag0 \/ e.accepted = 0 IN
       /\ Check(g, "later-strict-use-accepts-what-the-load-met", 0, e.accepted)
       /\ UNCHANGED vars /\ ok' = (ok /\ g)
    [] OTHER -> Say("unknown-op", "", e.op) /\ ok' = FALSE /\ UNCHANGED vars

Step == /\ l <= Len(Traces[tid].events) /\ StepEv(Ev) /\ l' = l + 1 /\ UNCHANGED <<tid, flag0>>
Done == /\ l = Len(Traces[tid].events) + 1
        /\ LET g == pc = "done" IN
           /\ (IF g THEN TRUE ELSE PrintT(ToJson([v |-> "MISMATCH", id |-> Traces[tid].id, l |-> l, op |-> "end", clause |-> "no-return-or-raise", exp |-> "", got |-> ""])))
           /\ PrintT(ToJson([v |-> IF ok /\ g THEN "ACCEPT" ELSE "REJECT", id |-> Traces[tid].id, n |-> l - 1]))
        /\ l' = l + 1 /\ UNCHANGED <<vars, tid, ok, flag0>>
TNext == Step \/ Done
=============================================================================

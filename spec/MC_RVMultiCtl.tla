----------------------------- MODULE MC_RVMultiCtl -----------------------------
(* Design-level: the envelope holds for ConvertExact on the complete input axis, *)
(* for a grid of gains, windows and target spans.                                *)
EXTENDS RVMultiCtl
CONSTANTS Gains, Wins, Spans
VARIABLES gain, wmin, wmax, span, v, prev
vars == <<gain, wmin, wmax, span, v, prev>>
Init == /\ gain \in Gains /\ wmin \in Wins /\ wmax \in Wins /\ span \in Spans
        /\ v = 0 /\ prev = ConvertExact(gain, wmin, wmax, span, 0)
Next == /\ v < 32768 /\ v' = v + 1 /\ prev' = ConvertExact(gain, wmin, wmax, span, v + 1)
        /\ UNCHANGED <<gain, wmin, wmax, span>>
Spec == Init /\ [][Next]_vars
InRange == prev \in 0..span
Monotone == [][(wmin <= wmax => prev' >= prev) /\ (wmin >= wmax => prev' <= prev)]_vars
=============================================================================

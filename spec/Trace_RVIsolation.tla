---------------------------- MODULE Trace_RVIsolation ----------------------------
(* C17: heap snapshots and mutation probes recorded from real objects.             *)
EXTENDS RVIsolation, Json, IOUtils, TLCExt, SequencesExt
Traces == JsonDeserialize(IOEnv.RV_TRACE_FILE)
VARIABLES tid, l, ok
TInit == tid \in 1..Len(Traces) /\ l = 1 /\ ok = TRUE
Ev == Traces[tid].events[l]
Say(clause, exp, got) ==
  PrintT(ToJson([v |-> "MISMATCH", id |-> Traces[tid].id, l |-> l, op |-> Ev.op, clause |-> clause, exp |-> exp, got |-> got]))
Check(good, clause, exp, got) == IF good THEN TRUE ELSE Say(clause, exp, got)
SetOf(q) == {q[i] : i \in 1..Len(q)}
StepEv(e) ==
  CASE e.op = "heap" ->       \* e.roots: sequence of [name, cells]; e.classcells
    (LET reach == [i \in 1..Len(e.roots) |-> SetOf(e.roots[i].cells)]
         cc == SetOf(e.classcells)
         g == NoSharing(reach, cc)
         bad == UNION {UNION {reach[a] \cap reach[b] : b \in DOMAIN reach \ {a}} \cup (reach[a] \cap cc) : a \in DOMAIN reach}
         g2 == e.class_state = e.class_state0 IN
     /\ Check(g, "shared-mutable-state:" \o e.after, {}, SetToSeq(bad))
     \* class-level containers and mutable default arguments are never modified by operations on instances
     /\ Check(g2, "class-level-state-modified:" \o e.after, e.class_changed, e.class_changed)
     /\ ok' = (ok /\ g /\ g2))
    [] e.op = "mutate" ->     \* a mutation applied to one object; digests of the OTHER object's state and bytes before/after
    (LET g1 == e.state_before = e.state_after
         g2 == e.bytes_before = e.bytes_after IN
     /\ Check(g1, "other-object-state-changed:" \o e.kind, e.provenance, e.diff)
     /\ Check(g2, "other-object-bytes-changed:" \o e.kind, e.provenance, e.diff)
     /\ ok' = (ok /\ g1 /\ g2))
    [] OTHER -> Say("unknown-op", "", e.op) /\ ok' = FALSE
Step == /\ l <= Len(Traces[tid].events) /\ StepEv(Ev) /\ l' = l + 1 /\ UNCHANGED tid
Done == /\ l = Len(Traces[tid].events) + 1
        /\ PrintT(ToJson([v |-> IF ok THEN "ACCEPT" ELSE "REJECT", id |-> Traces[tid].id, n |-> l - 1]))
        /\ l' = l + 1 /\ UNCHANGED <<tid, ok>>
TNext == Step \/ Done
=============================================================================

------------------------------ MODULE RVMultiCtl ------------------------------
(***************************************************************************)
(* MultiCtl fan-out (property C20).                                        *)
(* Macro(targets): targets is a sequence of [mod |-> module index,         *)
(* num |-> controller number].  More than 16 targets, or two targets on    *)
(* one module, are refused with MappingError and nothing is created;       *)
(* otherwise a MultiCtl is attached, linked to the targets in order, and   *)
(* mapping i names target i's controller number.                           *)
(* Feed(v): the value delivered to a ranged target lies in lo..hi and is    *)
(* monotone in v (non-decreasing for a normal window, non-increasing for a  *)
(* reversed one); a link whose mapping names no controller (0) leaves its   *)
(* target untouched.  The property fixes no rounding mode, so the           *)
(* acceptance criterion is this envelope; ConvertExact documents the        *)
(* intended function for the linear curve without quantization.             *)
(***************************************************************************)
EXTENDS Integers, Sequences, FiniteSets, SequencesExt, TLC

MacroOutcome(targets) ==
  IF Len(targets) > 16 THEN "MappingError"
  ELSE IF \E i, j \in 1..Len(targets) : i # j /\ targets[i].mod = targets[j].mod THEN "MappingError"
  ELSE "ok"

(* delivered values as run-length pairs <<value, count>> over inputs 0..32768 *)
Total(rle) == FoldLeft(LAMBDA a, r : a + r[2], 0, rle)
InRangeRle(rle, lo, hi) == \A k \in 1..Len(rle) : lo <= rle[k][1] /\ rle[k][1] <= hi
MonotoneRle(rle, reversed) == \A k \in 1..(Len(rle) - 1) :
    IF reversed THEN rle[k][1] >= rle[k+1][1] ELSE rle[k][1] <= rle[k+1][1]
Envelope(rle, lo, hi, wmin, wmax) ==
  /\ Total(rle) = 32769
  /\ InRangeRle(rle, lo, hi)
  /\ (wmin <= wmax => MonotoneRle(rle, FALSE))
  /\ (wmin >= wmax => MonotoneRle(rle, TRUE))

Min2(a, b) == IF a < b THEN a ELSE b
(* intended function, integer arithmetic (all products < 2^31): gain, then window, then target span *)
ConvertExact(gain, wmin, wmax, span, v) ==
  LET x == Min2((v * gain) \div 256, 32768)
      lo == Min2(wmin, wmax)  hi == IF wmin < wmax THEN wmax ELSE wmin
      y == lo + ((hi - lo) * x) \div 32768
      z == (y * span) \div 32768
  IN IF wmin <= wmax THEN z ELSE span - z
=============================================================================

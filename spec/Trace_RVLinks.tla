---------------------------- MODULE Trace_RVLinks ----------------------------
(* Batch trace validation (mode B) of link operations recorded from the real  *)
(* Project/Module objects.  One initial state per trace; every event is       *)
(* checked against RVLinks, a MISMATCH line names the failing clause, and the  *)
(* trace continues from the implementation's logged state so that the rest of *)
(* the trace is still examined.  Exactly one ACCEPT/REJECT line per trace.    *)
EXTENDS RVLinks, Json, IOUtils, TLCExt
Traces == JsonDeserialize(IOEnv.RV_TRACE_FILE)
VARIABLES st, tid, l, ok
tvars == <<st, tid, l, ok>>

TInit == /\ tid \in 1..Len(Traces) /\ l = 1 /\ ok = TRUE
         /\ st = EmptyTables(Traces[tid].n)
Ev == Traces[tid].events[l]

Say(kind, clause, exp, got) ==
  PrintT(ToJson([v |-> kind, id |-> Traces[tid].id, l |-> l, op |-> Ev.op, clause |-> clause,
                 exp |-> exp, got |-> got]))
Check(good, clause, exp, got) == IF good THEN TRUE ELSE Say("MISMATCH", clause, exp, got)

Compose(r1, B, C) ==       \* A >> B >> C : the first request, then connect(B, C)
  IF r1.outcome # "ok" THEN r1
  ELSE LET rs == {ConnectRes(p, B, C) : p \in r1.posts} IN
       [outcome |-> (CHOOSE r \in rs : TRUE).outcome, posts |-> UNION {r.posts : r \in rs}]

(* n times: connect a -> b, then disconnect it again (long histories in one event; only the final tables are logged) *)
OneOf(r, s) == IF r.outcome = "ok" /\ r.posts # {} THEN CHOOSE p \in r.posts : TRUE ELSE s
Cycles(s, a, b, n) ==
  FoldLeft(LAMBDA acc, i : LET s1 == OneOf(ConnectRes(acc, <<[m |-> a, neg |-> FALSE]>>, <<[m |-> b, neg |-> FALSE]>>), acc) IN
                           OneOf(ConnectRes(s1, <<[m |-> a, neg |-> TRUE]>>, <<[m |-> b, neg |-> FALSE]>>), s1),
           s, [i \in 1..n |-> i])
Expected(e) ==
  IF e.op = "cycles" THEN [outcome |-> "ok", posts |-> {Cycles(st, e.a, e.b, e.n)}]
  ELSE IF e.op = "connect" THEN ViaRes(st, e.via, e.A, e.B)
  ELSE IF e.op = "chain" THEN Compose(ConnectRes(st, e.A, e.B), e.B, e.C)
  ELSE [outcome |-> "ok", posts |-> {}]

WellTyped(p, n) == /\ DOMAIN p = {"inl", "ins", "outl", "outs"}
                   /\ Len(p.inl) = n /\ Len(p.ins) = n /\ Len(p.outl) = n /\ Len(p.outs) = n

Step ==
  /\ l <= Len(Traces[tid].events)
  /\ LET e == Ev  got == e.post  typed == WellTyped(got, NMods(st)) IN
     /\ Check(typed, "post-shape", NMods(st), "tables")
     /\ IF ~typed THEN ok' = FALSE /\ UNCHANGED st
        ELSE IF e.op \in {"connect", "chain", "cycles"} /\ ~Consistent(st) THEN
          \* the previous logged state was already rejected as inconsistent; no expectation is
          \* defined from it, the trace stays rejected and the new state is still examined
          LET g3 == Consistent(got) IN
          /\ Check(g3, "Consistent:" \o WhyInconsistent(got), "consistent", got)
          /\ ok' = FALSE /\ st' = got
        ELSE IF e.op \in {"connect", "chain", "cycles"} THEN
          LET r == Expected(e)
              g1 == e.outcome = r.outcome
              g2 == got \in r.posts
              g3 == Consistent(got) IN
          /\ Check(g1, "outcome", r.outcome, e.outcome)
          /\ Check(g2, "post-state", SetToSeq(r.posts), got)
          /\ Check(g3, "Consistent:" \o WhyInconsistent(got), "consistent", got)
          /\ ok' = (ok /\ g1 /\ g2 /\ g3)
          /\ st' = got
        ELSE IF e.op = "saveload" THEN
          LET g1 == e.outcome = "ok"
              g2 == Consistent(got)
              g3 == IF e.variant = "never" THEN SameGraphAndInOrder(st, got) ELSE SameUpToTrailing(st, got) IN
          /\ Check(g1, "load-outcome", "ok", e.outcome)
          /\ Check(g2, "LoadedConsistent:" \o WhyInconsistent(got), "consistent", got)
          /\ Check(g3, "LoadedEqual:" \o e.variant, Strip(st), got)
          /\ ok' = (ok /\ g1 /\ g2 /\ g3)
          /\ st' = got
        ELSE IF e.op = "save" THEN         \* the project was written (bytes produced, clone made): a pure observation
          LET g1 == e.outcome = "ok"   g2 == got = st IN
          /\ Check(g1, "save-outcome", "ok", e.outcome)
          /\ Check(g2, "saving-changed-the-tables", st, got)
          /\ ok' = (ok /\ g1 /\ g2) /\ st' = got
        ELSE IF e.op = "inject" THEN       \* the harness put the object into a model state
          LET g == Consistent(got) IN
          /\ Check(g, "inject-consistent", "consistent", got)
          /\ ok' = (ok /\ g) /\ st' = got
        ELSE /\ Say("MISMATCH", "unknown-op", "", e.op) /\ ok' = FALSE /\ UNCHANGED st
  /\ l' = l + 1 /\ UNCHANGED tid

Done == /\ l = Len(Traces[tid].events) + 1
        /\ PrintT(ToJson([v |-> IF ok THEN "ACCEPT" ELSE "REJECT", id |-> Traces[tid].id, n |-> l - 1]))
        /\ l' = l + 1 /\ UNCHANGED <<st, tid, ok>>

TNext == Step \/ Done
=============================================================================

-------------------------------- MODULE RVLoad --------------------------------
(***************************************************************************)
(* Loading and the process-wide strictness setting (property C18).         *)
(*   flag    rv.errors.RAISE_CONTROLLER_VALUE_ERRORS                       *)
(*   frames  stack of active loads: [saved |-> flag at entry,              *)
(*                                   handle |-> file opened by the library *)
(*                                              (0 = caller's stream)]     *)
(*   open    handles the library opened and has not closed                 *)
(*   pc      "run" | "unwind" (an exception is propagating) | "done"       *)
(* OnRead is the value the setting takes while reading (lenient = FALSE).  *)
(***************************************************************************)
EXTENDS Integers, Sequences, FiniteSets, TLC
VARIABLES flag, frames, open, pc
vars == <<flag, frames, open, pc>>
OnRead == FALSE
Last(q) == q[Len(q)]
Front(q) == SubSeq(q, 1, Len(q) - 1)

Enter(h)   == /\ pc = "run"
              /\ frames' = Append(frames, [saved |-> flag, handle |-> h])
              /\ flag' = OnRead
              /\ open' = IF h = 0 THEN open ELSE open \cup {h}
              /\ UNCHANGED pc
ReadOk     == pc = "run" /\ frames # <<>> /\ UNCHANGED vars
ReadFail   == pc = "run" /\ frames # <<>> /\ pc' = "unwind" /\ UNCHANGED <<flag, frames, open>>
Pop        == /\ frames # <<>>
              /\ flag' = Last(frames).saved
              /\ open' = open \ {Last(frames).handle}
              /\ frames' = Front(frames)
Exit       == pc = "run" /\ Pop /\ pc' = IF Len(frames) = 1 THEN "done" ELSE "run"
Unwind     == pc = "unwind" /\ Pop /\ pc' = IF Len(frames) = 1 THEN "done" ELSE "unwind"
(* an exception raised inside a nested load may also be caught by an outer frame's caller; *)
(* not modelled: the library does not catch during loading *)

Restored(flag0)  == frames = <<>> => (flag = flag0 /\ open = {})
LenientInside    == frames # <<>> => flag = OnRead
=============================================================================

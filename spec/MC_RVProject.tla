---------------------------- MODULE MC_RVProject ----------------------------
EXTENDS RVProject, Json
CONSTANTS NM, NP, MaxSlots, MaxPats, EmitK, EmitSel
VARIABLES st
Init == st = InitState(NM, NP)
Bound == \A P \in 1..2 : Len(st.slots[P]) <= MaxSlots /\ Len(st.pats[P]) <= MaxPats

SumQ(q) == FoldLeft(LAMBDA a, x : a + x + 1, 0, q)
Hash(s) == 3 * SumQ(s.slots[1]) + 5 * SumQ(s.slots[2]) + 7 * SumQ(s.pats[1]) + 11 * SumQ(s.pats[2])
           + 13 * SumQ(s.nmod) + Len(s.slots[1]) + 2 * Len(s.slots[2])
Emit(act, args, r, salt) ==
  IF EmitK = 0 \/ (Hash(st) + salt) % EmitK # EmitSel % EmitK THEN TRUE
  ELSE PrintT(ToJson([k |-> "T", pre |-> st, act |-> act, args |-> args, outcome |-> r.outcome,
                      posts |-> SetToSeq(r.posts), ret |-> r.ret]))
Do(act, args, r, salt) == Emit(act, args, r, salt) /\ \E p \in r.posts : st' = p

Mods == 1..NM
Pats == 1..NP
Items == {<<[k |-> "m", id |-> m]>> : m \in Mods} \cup {<<[k |-> "q", id |-> q]>> : q \in 0..NP}
         \cup {<<[k |-> "m", id |-> a], [k |-> "q", id |-> q]>> : a \in 3..NM, q \in Pats}
         \cup {<<[k |-> "m", id |-> a], [k |-> "m", id |-> b]>> : a \in 3..NM, b \in 3..NM}

Next ==
  \/ \E P \in 1..2, m \in Mods : /\ Assert(LET r == Attach(st, P, m) IN \A t \in r.posts : OthersUnmoved(st, t, m), "attach moved another module")
                                 /\ Do("attach", <<P, m>>, Attach(st, P, m), m)
  \/ \E P \in 1..2, m \in 3..NM : st.parent[m] = 0 /\ Do("new_module", <<P, m>>, Attach(st, P, m), 17 + m)
  \/ \E P \in 1..2, m \in 3..NM : /\ Assert(LET r == AttachEnd(st, P, m) IN \A t \in r.posts : OthersUnmoved(st, t, m), "attach moved another module")
                                  /\ Do("attach_end", <<P, m>>, AttachEnd(st, P, m), 19 + m)
  \/ \E P \in 1..2 : Do("attach_none", <<P>>, AttachNone(st, P), 23)
  \/ \E P \in 1..2, q \in 0..NP : Do("attach_pattern", <<P, q>>, AttachPattern(st, P, q), 29 + q)
  \/ \E P \in 1..2, it \in Items : Do("iadd", <<P, it>>, IAdd(st, P, it), 31 + Len(it))
  \/ \E P \in 1..2 : Do("saveload", <<P>>, SaveLoad(st, P), 37)
  \* pattern 1 is a Pattern with a note; pattern ids >= 2 stand for PatternClone objects (no cells)
  \/ \E q \in {1}, m \in Mods : Do("set_note_mod", <<q, m>>, SetNoteMod(st, q, m), 41 + m)
  \/ \E q \in {1}, n \in {32768, 65535} : Do("set_note_num", <<q, n>>, SetNoteNum(st, q, n), 47)
  \/ \E q \in {1} : Do("get_note_mod", <<q>>, GetNoteMod(st, q), 43)

CoherentNow == Coherent(st)
(* a note's module reference never resolves to a module of another project *)
NoteResolves == \A q \in Pats : LET r == GetNoteMod(st, q) IN
                  r.outcome = "ok" => \A x \in r.ret : x = 0 \/ st.parent[x] = st.pproj[q]
=============================================================================

------------------------------ MODULE MC_RVOptions ------------------------------
(* Bounded model: every option-bearing type, assignments of every representable *)
(* value (8-bit options: boundary values) to every option, in any order.        *)
EXTENDS RVOptions
CONSTANT Wide      \* TRUE: all 256 values of 8-bit options; FALSE: boundary values
VARIABLES t, sv
OptTypes == {x \in SpecTypes : Len(Opts(x)) > 0}
Init == t \in OptTypes /\ sv = Defaults(t)
Vals(o) == IF o.size <= 2 THEN 0..(Pow2(o.size) - 1)
           ELSE IF Wide THEN 0..(Pow2(o.size) - 1) \cup {-1, 256, 300}
           ELSE {0, 1, 2, 95, 96, 97, 127, 128, 254, 255} \cup {-1, 256}
Next == \E n \in OptNames(t) : \E v \in Vals(Opt(t, n)) :
           /\ (~Opt(t, n).hasmm /\ Opt(t, n).size > 1 => Representable(Opt(t, n), v))
           /\ sv' \in SetOption(t, sv, n, v) /\ UNCHANGED t
RoundTrip  == Unpack(t, Pack(t, sv)) = sv
Exclusive  == NeverBothOn(t, sv)
Bounds     == InBounds(t, sv) /\ AllRepresentable(t, sv)
Covers     == Len(Pack(t, sv)) = MaxByte(t) + 1 /\ \A i \in 1..Len(Pack(t, sv)) : Pack(t, sv)[i] \in 0..255
SpecOK     == OptionsDisjoint(t) /\ OptionsFit(t)
=============================================================================

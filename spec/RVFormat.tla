-------------------------------- MODULE RVFormat --------------------------------
(***************************************************************************)
(* The SunVox file format as an executable definition (C01-C06, C15, C16). *)
(* Written from docs/sunvox-file-format.rst and specs/fileformat.yaml;     *)
(* items the 1.9.4 document lacks are marked CODE-EXT (taken from the      *)
(* property text / YAML / struct comments).                                *)
(*                                                                         *)
(* Abstract objects are the JSON trees produced by the harness projection. *)
(* A chunk is [id, data, isn, nested]: nested containers (an embedded      *)
(* project, a sampler's effect) are kept as chunk lists (isn = TRUE) by    *)
(* the TLV layer, everything else as bytes.                                *)
(*                                                                         *)
(*   Write(obj)    the chunk stream of a project / synth                   *)
(*   Read(chunks)  the object a chunk stream denotes (mode machine)        *)
(*   Norm(obj)     documented storage limits applied to an object          *)
(***************************************************************************)
EXTENDS RVBytes, RVCtl, RVOptions, RVLinks, Functions

C(id, data) == [id |-> id, data |-> data, isn |-> FALSE, nested |-> <<>>]
N(id, chunks) == [id |-> id, data |-> <<>>, isn |-> TRUE, nested |-> chunks]
Chnm(n) == C("CHNM", Enc32(n))
None == <<>>
Some(x) == <<x>>

(* =========================================================== controllers *)
Spec(m) == SpecData[m.mtype]
HasSpec(m) == m.mtype \in SpecTypes
UnitOf(m, c) == IF c.kind = "dep" THEN m.ctl[c.dep] ELSE 0
Raws(m) == IF ~HasSpec(m) THEN <<>> ELSE
  [i \in 1..Len(Spec(m).ctls) |-> ToRaw(Spec(m).ctls[i], UnitOf(m, Spec(m).ctls[i]), m.ctl[i])]
CmidBytes(x) == <<x[1], x[2], x[3], 0>> \o Enc16(x[4]) \o <<0, IF x[1] = 0 THEN 255 ELSE 200>>

(* ------- MetaModule user defined controllers: the stored form of value i follows the TARGET's   *)
(* offset rule; the target is found through mapping i in the embedded project (0-based controller *)
(* index, as the library resolves it); the first n = user_defined_controllers are attached        *)
OptVal(m, name) == LET k == CHOOSE k \in 1..Len(m.opts) : m.opts[k][1] = name IN m.opts[k][2]
MetaN(m) == OptVal(m, "user_defined_controllers")
DefaultUD == [name |-> "user_defined", kind |-> "range", min |-> 0, max |-> 44100, default |-> 0, members |-> <<>>,
              dep |-> 0, ranges |-> <<>>, defrange |-> <<0, 0>>, attached |-> FALSE]
(* a target that is itself a user defined controller of a NESTED MetaModule takes that controller's rule in turn (the   *)
(* chain ends at an ordinary controller, or at an unresolved mapping / an unexposed controller: the default rule)        *)
RECURSIVE UDTarget(_, _)
UDTarget(m, i) ==     \* <<controller record, unit>>
  LET mp == m.payload.mappings[i]  ms == m.payload.project.modules IN
  IF mp[1] = 0 \/ mp[1] >= Len(ms) THEN <<DefaultUD, 0>>
  ELSE LET tm == ms[mp[1] + 1] IN
       IF tm.kind = "none" \/ ~HasSpec(tm) THEN <<DefaultUD, 0>>
       ELSE IF tm.mtype = "MetaModule" /\ mp[2] >= 5
            THEN (IF mp[2] - 4 <= MetaN(tm) THEN UDTarget(tm, mp[2] - 4) ELSE <<DefaultUD, 0>>)
       ELSE IF mp[2] >= Len(Spec(tm).ctls) THEN <<DefaultUD, 0>>
       ELSE <<Spec(tm).ctls[mp[2] + 1], UnitOf(tm, Spec(tm).ctls[mp[2] + 1])>>
(* the current value of the controller mapping i points at *)
UDTargetVal(m, i) ==
  LET mp == m.payload.mappings[i]  tm == m.payload.project.modules[mp[1] + 1] IN
  IF tm.mtype = "MetaModule" /\ mp[2] >= 5 THEN tm.payload.udvals[mp[2] - 4] ELSE tm.ctl[mp[2] + 1]
UDRaws(m) == [i \in 1..MetaN(m) |-> LET tg == UDTarget(m, i) IN ToRaw(tg[1], tg[2], m.payload.udvals[i])]

AllRaws(m)  == IF m.mtype = "MetaModule" THEN Raws(m) \o UDRaws(m) ELSE Raws(m)
AllCmids(m) == IF m.mtype = "MetaModule" THEN m.cmid \o SubSeq(m.payload.udcmid, 1, MetaN(m)) ELSE m.cmid

(* =========================================================== options *)
HasOpts(m) == HasSpec(m) /\ Len(Spec(m).opts) > 0
StoredOpts(m) == [n \in OptNames(m.mtype) |-> Stored(Opt(m.mtype, n), OptVal(m, n))]
OptionsChunks(m) == <<Chnm(Spec(m).options_chnm), C("CHDT", Pack(m.mtype, StoredOpts(m)))>>

(* =========================================================== module-specific chunks *)
DefaultWave == <<0, -100, -90, 0, 90, -119, -20, 45, 2, -20, 111, -23, 2, -98, 60, 32,
                 100, 50, 0, -50, 65, 98, 50, 32, -90, -120, 100, 90, 59, 21, 0, 54>>
ArrSpec(m, name) == Spec(m).arrays[CHOOSE k \in 1..Len(Spec(m).arrays) : Spec(m).arrays[k].name = name]
ArrVals(m, name) == m.payload.arrays[CHOOSE k \in 1..Len(m.payload.arrays) : m.payload.arrays[k][1] = name][2]
ElemBytes(etype, v) == IF etype = "unsigned byte" THEN Enc8(v) ELSE IF etype = "unsigned short" THEN Enc16(v) ELSE Enc32(v)
ArrChunks(chnm, etype, vals) == <<Chnm(chnm), C("CHDT", FlattenSeq([i \in 1..Len(vals) |-> ElemBytes(etype, vals[i])]))>>
ArrayOf(m, name) == ArrChunks(ArrSpec(m, name).chnm, ArrSpec(m, name).etype, ArrVals(m, name))
WaveChunks(m) ==      \* drawn waveform: 32 signed 8-bit frames; omitted while it is the default drawing
  IF m.payload.samples = DefaultWave THEN <<>>
  ELSE <<Chnm(0), C("CHDT", [i \in 1..Len(m.payload.samples) |-> m.payload.samples[i] % 256]), C("CHFR", EncL32(m.payload.freq))>>
(* CHNK value per type (at least 1 more than the highest CHNM; CODE-EXT: values as allocated by SunVox) *)
ChnkOf(m) ==
  CASE m.mtype = "Analog generator" -> 4
    [] m.mtype = "Generator" -> IF m.payload.samples = DefaultWave THEN 0 ELSE 4
    [] m.mtype \in {"MultiSynth", "FMX", "Sound2Ctl", "SpectraVoice", "MultiCtl"} -> 4
    [] m.mtype \in {"WaveShaper", "Vorbis player"} -> 1
    [] m.mtype = "MetaModule" -> 8 + 96
    [] m.mtype = "Sampler" -> 267
    [] OTHER -> 0

(* ---- Sampler (CODE-EXT: header struct of 0x190 bytes, 44-byte sample records, 96 user controllers) *)
EnvRange0(k) == IF k \in {2, 3} THEN -16384 ELSE 0          \* panning and pitch envelopes are centred
LegacyPoints(e, k) ==      \* 12 (x, y) pairs of the pre-envelope layout
  FlattenSeq([i \in 1..12 |-> IF i <= Len(e.points)
      THEN Enc16(e.points[i][1]) \o Enc16((e.points[i][2] \div 512) - (EnvRange0(k) \div 512))
      ELSE Enc16(0) \o Enc16(0 - (EnvRange0(k) \div 512))])      \* unused points rest at the centre line
EnvBits(e) == e.enable + 2 * e.sustain + 4 * e.loop
NoteMap128(p) == Pad(p.note_samples, 128)
LastSample(p) == IF \E i \in 1..Len(p.samples) : p.samples[i] # <<>>
                 THEN CHOOSE i \in 1..Len(p.samples) : p.samples[i] # <<>> /\ \A j \in (i+1)..Len(p.samples) : p.samples[j] = <<>>
                 ELSE 0
SamplerHeader(p) ==
  LET vol == p.envs[1]  pan == p.envs[2] IN
     EncL32(p.unused1) \o Pad(p.instrument_name, 22) \o Enc16(p.unused2) \o Enc16(LastSample(p)) \o Enc16(p.unused3)
  \o EncL32(p.unused4) \o SubSeq(NoteMap128(p), 1, 96) \o LegacyPoints(vol, 1) \o LegacyPoints(pan, 2)
  \o <<Len(vol.points) % 256, Len(pan.points) % 256, vol.sustain_point % 256, vol.loop_start_point % 256, vol.loop_end_point % 256,
       pan.sustain_point % 256, pan.loop_start_point % 256, pan.loop_end_point % 256, EnvBits(vol), EnvBits(pan),
       p.vibrato_type, p.vibrato_attack, p.vibrato_depth, p.vibrato_rate>>
  \o Enc16(p.volume_fadeout) \o <<p.volume_old, p.ins_finetune % 256, p.unused5, p.ins_relative_note % 256>> \o EncL32(p.unused6)
  \o <<80, 77, 65, 83>> \o EncL32(p.version) \o NoteMap128(p) \o EncL32(p.max_version)
  \o Enc32(p.editor_cursor) \o Enc32(p.editor_selected_size)
FormatFlag(f) == IF f = 1 THEN 0 ELSE IF f = 2 THEN 16 ELSE 32
SampleMeta(s) ==
     EncL32(s.frames) \o EncL32(s.loop_start) \o EncL32(s.loop_len)
  \o <<s.volume, s.finetune % 256, s.loop_type + FormatFlag(s.format) + (IF s.channels = 8 THEN 64 ELSE 0) + 4 * s.loop_sustain,
       (s.panning + 128) % 256, s.relative_note % 256, s.reserved2>>
  \o Pad(s.name, 22) \o EncL32(s.start_pos)
SampleChunks(p) == FlattenSeq([i \in 1..Len(p.samples) |->
  IF p.samples[i] = <<>> THEN <<>> ELSE LET s == p.samples[i][1] IN
  <<Chnm(2 * (i - 1) + 1), C("CHDT", SampleMeta(s)), Chnm(2 * (i - 1) + 2), C("CHDT", s.data),
    C("CHFF", Enc32(s.format + s.channels)), C("CHFR", EncL32(s.rate))>>])
EnvChunk(e, k) == <<Chnm(257 + k),        \* 0x102 .. 0x108
  C("CHDT", Enc16(EnvBits(e)) \o <<e.ctl_index, e.gain_pct, e.velocity, 0, 0, 0>> \o Enc16(Len(e.points))
            \o Enc16(e.sustain_point) \o Enc16(e.loop_start_point) \o Enc16(e.loop_end_point) \o <<0, 0, 0, 0>>
            \o FlattenSeq([i \in 1..Len(e.points) |-> Enc16(e.points[i][1]) \o Enc16(e.points[i][2] - EnvRange0(k))]))>>

RECURSIVE WriteModuleBody(_, _), WriteProject(_), WriteSynth(_)
SamplerChunks(m) == LET p == m.payload IN
     <<Chnm(0), C("CHDT", SamplerHeader(p))>> \o SampleChunks(p) \o OptionsChunks(m)
  \o FlattenSeq([k \in 1..7 |-> EnvChunk(p.envs[k], k)])
  \o (IF p.effect = <<>> THEN <<>> ELSE <<Chnm(266), N("CHDT", WriteSynth(p.effect[1]))>>)
(* ---- MetaModule *)
MetaChunks(m) == LET p == m.payload IN
     <<Chnm(0), N("CHDT", WriteProject(p.project))>>
  \o <<Chnm(1), C("CHDT", FlattenSeq([i \in 1..Len(p.mappings) |-> Enc16(p.mappings[i][1]) \o Enc16(p.mappings[i][2])]))>>
  \o OptionsChunks(m)
  \o FlattenSeq([i \in 1..Len(p.labels) |-> IF i <= MetaN(m) /\ p.labels[i] # <<>>
                                             THEN <<Chnm(7 + i), C("CHDT", CStr(p.labels[i][1]))>> ELSE <<>>])

Specific(m) ==
  CASE m.payload.k = "sampler" -> SamplerChunks(m)
    [] m.payload.k = "meta"    -> MetaChunks(m)
    [] m.payload.k = "wave"    -> WaveChunks(m) \o (IF HasOpts(m) THEN OptionsChunks(m) ELSE <<>>)
    [] m.payload.k = "fmx"     -> <<Chnm(0), C("CHDT", FlattenSeq(m.payload.custom_waveform))>>
    [] m.payload.k = "vorbis"  -> <<Chnm(0), C("CHDT", m.payload.data)>>
    [] m.payload.k = "multictl" ->
         <<Chnm(0), C("CHDT", FlattenSeq([i \in 1..Len(m.payload.mappings) |->
                         FlattenSeq([j \in 1..8 |-> EncL32(m.payload.mappings[i][j])])]))>>
         \o ArrChunks(1, "unsigned short", m.payload.curve)
    [] m.payload.k = "arrays" /\ m.mtype = "MultiSynth" ->
         ArrayOf(m, "note_velocity_curve") \o OptionsChunks(m) \o ArrayOf(m, "velocity_velocity_curve")
         \o (IF ArrVals(m, "note_pitch_curve") = [i \in 1..128 |-> 16384 + 256 * (i - 1)] THEN <<>> ELSE ArrayOf(m, "note_pitch_curve"))
    [] m.payload.k = "arrays" -> FlattenSeq([k \in 1..Len(Spec(m).arrays) |-> ArrayOf(m, Spec(m).arrays[k].name)])
    [] OTHER -> IF HasOpts(m) THEN OptionsChunks(m) ELSE <<>>

(* =========================================================== common module chunks *)
MidiIn(m) == m.midi_in_always + 2 * m.midi_in_channel
WriteModuleHead(m, inproj) ==
     <<C("SFFF", EncL32(m.flags)), C("SNAM", Pad(Utf8Prefix(m.name, 32), 32))>>
  \o (IF m.mtype = "Output" THEN <<>> ELSE <<C("STYP", CStr(Spec(m).mtypeb))>>)
  \o <<C("SFIN", Enc32(m.fin)), C("SREL", Enc32(m.rel))>>
  \o (IF inproj THEN <<C("SXXX", Enc32(m.x)), C("SYYY", Enc32(m.y)), C("SZZZ", Enc32(m.layer))>> ELSE <<>>)
  \o <<C("SSCL", EncL32(m.scale))>>
  \o (IF inproj THEN <<C("SVPR", EncL32(m.vis))>> ELSE <<>>)
  \o <<C("SCOL", m.color), C("SMII", Enc32(MidiIn(m)))>>
  \o (IF m.moname \in {<<>>, << <<>> >>} THEN <<>> ELSE <<C("SMIN", CStr(m.moname[1]))>>)
  \o <<C("SMIC", Enc32(m.moch)), C("SMIB", Enc32(m.mobank)), C("SMIP", Enc32(m.moprog))>>
WriteLinks(m) == IF m.inl = <<>> THEN <<C("SLNK", <<>>)>> ELSE
     <<C("SLNK", FlattenSeq([i \in 1..Len(m.inl) |-> Enc32(m.inl[i])]))>>
  \o (IF NeedSlots(m.ins) THEN <<C("SLnK", FlattenSeq([i \in 1..Len(m.ins) |-> Enc32(m.ins[i])]))>> ELSE <<>>)   \* CODE-EXT
WriteCtls(m) == [i \in 1..Len(AllRaws(m)) |-> C("CVAL", Enc32(AllRaws(m)[i]))]
  \o (IF AllRaws(m) = <<>> THEN <<>> ELSE <<C("CMID", FlattenSeq([i \in 1..Len(AllCmids(m)) |-> CmidBytes(AllCmids(m)[i])]))>>)
WriteModuleBody(m, inproj) ==
     WriteModuleHead(m, inproj) \o (IF inproj THEN WriteLinks(m) ELSE <<>>) \o WriteCtls(m)
  \o (IF ChnkOf(m) = 0 THEN <<>> ELSE <<C("CHNK", Enc32(ChnkOf(m)))>> \o Specific(m))
  \o <<C("SEND", <<>>)>>

(* =========================================================== patterns *)
NoteBytes5(n) == <<n[1], n[2]>> \o Enc16(n[3]) \o Enc16(n[4]) \o Enc16(n[5])
WritePattern(p) ==
  IF p.kind = "none"  THEN <<C("PEND", <<>>)>> ELSE
  IF p.kind = "clone" THEN <<C("PPAR", EncL32(p.source)), C("PFFF", EncL32(p.flags)),
                             C("PXXX", Enc32(p.x)), C("PYYY", Enc32(p.y)), C("PEND", <<>>)>>
  ELSE <<C("PDTA", FlattenSeq([i \in 1..Len(p.cells) |-> NoteBytes5(p.cells[i])]))>>
       \o (IF p.name = <<>> THEN <<>> ELSE <<C("PNME", CStr(p.name[1]))>>)
       \o <<C("PCHN", EncL32(p.tracks)), C("PLIN", EncL32(p.lines)), C("PYSZ", EncL32(p.ysize)),
            C("PFLG", EncL32(p.pflg)), C("PICO", p.icon), C("PFGC", p.fg), C("PBGC", p.bg),
            C("PFFF", EncL32(p.flags)), C("PXXX", Enc32(p.x)), C("PYYY", Enc32(p.y)), C("PEND", <<>>)>>

(* =========================================================== project / synth *)
Ver(v) == <<v[4], v[3], v[2], v[1]>>
WriteProject(o) == LET p == o.proj IN
     <<C("SVOX", <<>>), C("VERS", Ver(p.vers)), C("BVER", Ver(p.bver)), C("FLGS", EncL32(p.flags)),     \* FLGS, SFGS: CODE-EXT
       C("SFGS", Enc32(p.syncmidi + 8 * p.syncother)),
       C("BPM ", EncL32(p.bpm)), C("SPED", EncL32(p.tpl)), C("TGRD", EncL32(p.tgrd)), C("TGD2", EncL32(p.tgd2)),
       C("GVOL", EncL32(p.gvol)), C("NAME", CStr(p.name)), C("MSCL", EncL32(p.mscl)), C("MZOO", EncL32(p.mzoo)),
       C("MXOF", Enc32(p.mxof)), C("MYOF", Enc32(p.myof)), C("LMSK", EncL32(p.lmsk)), C("CURL", EncL32(p.curl))>>
  \o (IF p.time = 0 THEN <<>> ELSE <<C("TIME", Enc32(p.time))>>)
  \o (IF p.reps = 0 THEN <<>> ELSE <<C("REPS", Enc32(p.reps))>>)
  \o <<C("SELS", EncL32(p.sels)), C("LGEN", Enc32(p.lgen)), C("PATN", EncL32(p.patn)), C("PATT", EncL32(p.patt)), C("PATL", EncL32(p.patl))>>
  \o FlattenSeq([i \in 1..Len(o.patterns) |-> WritePattern(o.patterns[i])])
  \o FlattenSeq([i \in 1..Len(o.modules) |-> IF o.modules[i].kind = "none" THEN <<C("SEND", <<>>)>>
                                              ELSE WriteModuleBody(o.modules[i], TRUE)])
WriteSynth(o) == <<C("SSYN", <<>>), C("VERS", Ver(o.vers))>> \o WriteModuleBody(o.module[1], FALSE)
Write(o) == IF o.kind = "project" THEN WriteProject(o) ELSE WriteSynth(o)

(* ============================================================================ *)
(*                                   READING                                    *)
(* ============================================================================ *)
(* A mode machine structured like a chunk-dispatching reader: the id of each     *)
(* chunk is looked up in the table of the CURRENT section; ids unknown to the    *)
(* section are skipped; PDTA/PPAR/SFFF open a section that PEND/SEND closes; a   *)
(* lone PEND/SEND is an empty slot; slots are appended in file order.            *)
DefaultProj ==
  [vers |-> <<2, 1, 2, 1>>, bver |-> None, flags |-> <<0, 0>>, syncmidi |-> 1, syncother |-> 1,
   bpm |-> <<125, 0>>, tpl |-> <<6, 0>>, tgrd |-> <<4, 0>>, tgd2 |-> <<4, 0>>, gvol |-> <<80, 0>>,
   name |-> <<80, 114, 111, 106, 101, 99, 116>>, mscl |-> <<256, 0>>, mzoo |-> <<256, 0>>, mxof |-> 0, myof |-> 0,
   lmsk |-> <<0, 0>>, curl |-> <<0, 0>>, time |-> 0, reps |-> 0, sels |-> <<0, 0>>, lgen |-> -1,
   patn |-> <<0, 0>>, patt |-> <<0, 0>>, patl |-> <<0, 0>>]
DefaultCmid == <<0, 0, 0, 0>>
DefaultOpts(t) == IF t \in SpecTypes THEN [i \in 1..Len(Opts(t)) |-> <<Opts(t)[i].name, Opts(t)[i].default>>] ELSE <<>>
(* the documented sub-fields of the SVPR word: level mode (bits 0-4, 5 listed values), orientation (bit 5), oscilloscope mode
   (bits 8-12, 8 listed values), oscilloscope size (bits 16-23), background transparency (bits 24-25), shadow opacity (bits 26-27);
   -1 where the bits hold a value the enumeration does not list *)
VisF(v) == << IF v[1] % 32 < 5 THEN v[1] % 32 ELSE -1, (v[1] \div 32) % 2,
              IF (v[1] \div 256) % 32 < 8 THEN (v[1] \div 256) % 32 ELSE -1, v[2] % 256, (v[2] \div 256) % 4, (v[2] \div 1024) % 4 >>
BaseModule(mtype, name, flags) ==
  [kind |-> "module", mtype |-> mtype, name |-> name, flags |-> flags, fin |-> 0, rel |-> 0, x |-> 512, y |-> 512, layer |-> 0,
   scale |-> <<256, 0>>, vis |-> <<257, 12>>, visf |-> VisF(<<257, 12>>), color |-> <<255, 255, 255>>, midi_in_always |-> 0, midi_in_channel |-> 0,
   moname |-> None, moch |-> 0, mobank |-> -1, moprog |-> -1, inl |-> <<>>, ins |-> <<>>, outl |-> <<>>, outs |-> <<>>,
   ctl |-> IF mtype \in SpecTypes THEN [i \in 1..Len(Ctls(mtype)) |-> Ctls(mtype)[i].default] ELSE <<>>,
   cmid |-> IF mtype \in SpecTypes THEN [i \in 1..Len(Ctls(mtype)) |-> DefaultCmid] ELSE <<>>,
   opts |-> DefaultOpts(mtype), payload |-> [k |-> "none"]]
TypeOfBytes(b) == IF \E t \in SpecTypes : SpecData[t].mtypeb = b THEN CHOOSE t \in SpecTypes : SpecData[t].mtypeb = b ELSE "?"
(* bitwise OR of a limb pair with a small non-negative int *)
RECURSIVE Or16(_, _, _)
Or16(p, q, k) == IF k = 16 THEN 0 ELSE (IF (p % 2 = 1) \/ (q % 2 = 1) THEN 1 ELSE 0) + 2 * Or16(p \div 2, q \div 2, k + 1)
OrL(a, b) == <<Or16(a[1], b % 65536, 0), Or16(a[2], (b \div 65536) % 65536, 0)>>
I32List(d) == [i \in 1..(Len(d) \div 4) |-> DecI32(SubSeq(d, 4 * i - 3, 4 * i))]
NewPattern == [kind |-> "pattern", name |-> None, tracks |-> <<4, 0>>, lines |-> <<32, 0>>, ysize |-> <<32, 0>>, pflg |-> <<0, 0>>,
               icon |-> Zeros(32), fg |-> <<0, 0, 0>>, bg |-> <<255, 255, 255>>, flags |-> <<0, 0>>, x |-> 0, y |-> 0, raw |-> <<>>]
PatCells(p) == [i \in 1..(LInt(p.lines) * LInt(p.tracks)) |->
   LET b == Pad(SubSeq(p.raw, 8 * i - 7, 8 * i), 8) IN <<b[1], b[2], DecU16(SubSeq(b, 3, 4)), DecU16(SubSeq(b, 5, 6)), DecU16(SubSeq(b, 7, 8))>>]
FinishPattern(p) == [kind |-> "pattern", name |-> p.name, tracks |-> p.tracks, lines |-> p.lines, ysize |-> p.ysize, pflg |-> p.pflg,
   icon |-> p.icon, fg |-> p.fg, bg |-> p.bg, flags |-> p.flags, x |-> p.x, y |-> p.y, cells |-> PatCells(p)]

(* ---- module-specific chunks collected while in a module section: sequence of [chnm, data, isn, nested, chff, chfr] *)
NewMChunk(n) == [chnm |-> n, data |-> <<>>, isn |-> FALSE, nested |-> <<>>, chff |-> <<0, 0>>, chfr |-> <<44100, 0>>]
MChunk(cs, n) == IF \E k \in 1..Len(cs) : cs[k].chnm = n
                 THEN <<cs[CHOOSE k \in 1..Len(cs) : cs[k].chnm = n /\ \A j \in (k+1)..Len(cs) : cs[j].chnm # n]>> ELSE <<>>
U8s(d) == d
U16s(d) == [i \in 1..(Len(d) \div 2) |-> DecU16(SubSeq(d, 2 * i - 1, 2 * i))]
ElemsOf(etype, d) == IF etype = "unsigned byte" THEN U8s(d) ELSE U16s(d)
S8(b) == IF b >= 128 THEN b - 256 ELSE b

RECURSIVE ReadAll(_), ReadModulePayload(_, _)

(* options: stored bits -> logical values, in the YAML's order *)
ReadOpts(t, cs) ==
  IF t \notin SpecTypes \/ Len(Opts(t)) = 0 THEN <<>> ELSE
  LET c == MChunk(cs, SpecData[t].options_chnm) IN
  IF c = <<>> THEN DefaultOpts(t)
  ELSE LET sv == Unpack(t, c[1].data) IN
       [i \in 1..Len(Opts(t)) |-> <<Opts(t)[i].name, Logical(Opts(t)[i], sv[Opts(t)[i].name])>>]

(* ---- Sampler *)
DefaultEnv(k) ==
  CASE k = 1 -> [enable |-> 1, sustain |-> 1, loop |-> 0, ctl_index |-> 0, gain_pct |-> 100, velocity |-> 0, sustain_point |-> 0,
                 loop_start_point |-> 0, loop_end_point |-> 0, points |-> << <<0, 32768>>, <<8, 0>>, <<128, 0>>, <<256, 0>> >>]
    [] k = 2 -> [enable |-> 0, sustain |-> 0, loop |-> 0, ctl_index |-> 0, gain_pct |-> 100, velocity |-> 0, sustain_point |-> 0,
                 loop_start_point |-> 0, loop_end_point |-> 0, points |-> << <<0, 0>>, <<64, -8192>>, <<128, 8192>>, <<180, 0>> >>]
    [] k = 3 -> [enable |-> 0, sustain |-> 0, loop |-> 0, ctl_index |-> 0, gain_pct |-> 100, velocity |-> 0, sustain_point |-> 0,
                 loop_start_point |-> 0, loop_end_point |-> 0, points |-> << <<0, 0>>, <<64, 0>> >>]
    [] OTHER -> [enable |-> 0, sustain |-> 0, loop |-> 0, ctl_index |-> 0, gain_pct |-> 100, velocity |-> 0, sustain_point |-> 0,
                 loop_start_point |-> 0, loop_end_point |-> 0, points |-> << <<0, 32768>>, <<64, 32768>> >>]
ReadEnv(d, k) ==
  LET n == DecU16(Slice(d, 8, 2))  bits == DecU16(Slice(d, 0, 2)) IN
  [enable |-> bits % 2, sustain |-> (bits \div 2) % 2, loop |-> (bits \div 4) % 2, ctl_index |-> d[3], gain_pct |-> d[4], velocity |-> d[5],
   sustain_point |-> DecU16(Slice(d, 10, 2)), loop_start_point |-> DecU16(Slice(d, 12, 2)), loop_end_point |-> DecU16(Slice(d, 14, 2)),
   points |-> [i \in 1..n |-> <<DecU16(Slice(d, 20 + 4 * (i - 1), 2)), DecU16(Slice(d, 22 + 4 * (i - 1), 2)) + EnvRange0(k)>>]]
(* pre-envelope layout: the envelope is taken from the header's legacy arrays *)
LegacyEnv(h, k, base, npts, sus, ls, le, bits) ==
  [DefaultEnv(k) EXCEPT !.enable = bits % 2, !.sustain = (bits \div 2) % 2, !.loop = (bits \div 4) % 2,
     !.sustain_point = sus, !.loop_start_point = ls, !.loop_end_point = le,
     !.points = [i \in 1..npts |-> <<DecU16(Slice(h, base + 4 * (i - 1), 2)), DecU16(Slice(h, base + 4 * (i - 1) + 2, 2)) * 512 + EnvRange0(k)>>]]
U32At(h, off, dflt) == IF HasBytes(h, off, 4) THEN DecL32(Slice(h, off, 4)) ELSE dflt
I32At(h, off, dflt) == IF HasBytes(h, off, 4) THEN DecI32(Slice(h, off, 4)) ELSE dflt
FormatOfFlag(f) == IF f = 0 THEN 1 ELSE IF f = 16 THEN 2 ELSE 4
ReadSample(meta, datac) ==
  LET d == meta.data  ty == d[15]
      s0 == [data |-> <<>>, loop_start |-> DecL32(Slice(d, 4, 4)), loop_len |-> DecL32(Slice(d, 8, 4)), volume |-> d[13], finetune |-> S8(d[14]),
             format |-> FormatOfFlag(ty - (ty % 16) - (IF (ty \div 64) % 2 = 1 THEN 64 ELSE 0) - (IF ty >= 128 THEN 128 ELSE 0)),
             channels |-> IF (ty \div 64) % 2 = 1 THEN 8 ELSE 0, rate |-> <<44100, 0>>,
             loop_type |-> ty % 4, loop_sustain |-> (ty \div 4) % 2, panning |-> d[16] - 128, relative_note |-> S8(d[17]),
             reserved2 |-> d[18], name |-> RStrip0(Slice(d, 18, 22)), start_pos |-> U32At(d, 40, <<0, 0>>), frames |-> <<0, 0>>]
  IN IF datac = <<>> THEN s0
     ELSE LET c == datac[1]  fmt == IF c.chff[1] % 8 = 0 THEN 1 ELSE c.chff[1] % 8 IN
          [s0 EXCEPT !.data = c.data, !.format = fmt, !.channels = ((c.chff[1] \div 8) % 2) * 8, !.rate = c.chfr]
FrameSize(s) == (IF s.format = 1 THEN 1 ELSE IF s.format = 2 THEN 2 ELSE 4) * (IF s.channels = 8 THEN 2 ELSE 1)
WithFrames(s) == [s EXCEPT !.frames = IntL(Len(s.data) \div FrameSize(s))]
ReadSampler(t, cs) ==
  LET hc == MChunk(cs, 0)
      h == IF hc = <<>> THEN <<>> ELSE hc[1].data
      hasH == Len(h) >= 260
      sign == IF hasH THEN Slice(h, 252, 4) ELSE <<80, 77, 65, 83>>
      nm96 == IF hasH THEN Slice(h, 36, 96) ELSE <<>>
      nm128 == IF hasH THEN RStrip0(Slice(h, 260, 128)) ELSE <<>>
      nmap == [i \in 1..119 |-> IF i <= Len(nm128) THEN nm128[i] ELSE IF i <= Len(nm96) THEN nm96[i] ELSE 0]
      envOf(k) == LET c == MChunk(cs, 257 + k) IN
                  IF c # <<>> THEN ReadEnv(c[1].data, k)
                  ELSE IF MChunk(cs, 258) = <<>> /\ hasH /\ k \in {1, 2}      \* no volume envelope chunk: legacy conversion
                       THEN (IF k = 1 THEN LegacyEnv(h, 1, 132, h[229], h[231], h[232], h[233], h[237])
                                      ELSE LegacyEnv(h, 2, 180, h[230], h[234], h[235], h[236], h[238]))
                       ELSE DefaultEnv(k)
      eff == MChunk(cs, 266)
  IN [k |-> "sampler",
      samples |-> [i \in 1..128 |-> LET m == MChunk(cs, 2 * (i - 1) + 1) IN
                     IF m = <<>> THEN <<>> ELSE <<WithFrames(ReadSample(m[1], MChunk(cs, 2 * (i - 1) + 2)))>>],
      envs |-> [k \in 1..7 |-> envOf(k)],
      note_samples |-> nmap,
      vibrato_type |-> IF hasH THEN h[239] ELSE 0, vibrato_attack |-> IF hasH THEN h[240] ELSE 0,
      vibrato_depth |-> IF hasH THEN h[241] ELSE 0, vibrato_rate |-> IF hasH THEN h[242] ELSE 0,
      volume_fadeout |-> IF hasH THEN DecU16(Slice(h, 242, 2)) ELSE 0,
      instrument_name |-> IF hasH THEN RStrip0(Slice(h, 4, 22)) ELSE <<>>,
      version |-> IF hasH THEN DecL32(Slice(h, 256, 4)) ELSE <<6, 0>>,
      max_version |-> U32At(h, 388, <<6, 0>>),
      unused1 |-> IF hasH THEN DecL32(Slice(h, 0, 4)) ELSE <<0, 0>>, unused2 |-> IF hasH THEN DecU16(Slice(h, 26, 2)) ELSE 0,
      unused3 |-> IF hasH THEN DecU16(Slice(h, 30, 2)) ELSE 0, unused4 |-> IF hasH THEN DecL32(Slice(h, 32, 4)) ELSE <<0, 0>>,
      unused5 |-> IF hasH THEN h[247] ELSE 0, unused6 |-> IF hasH THEN DecL32(Slice(h, 248, 4)) ELSE <<0, 0>>,
      volume_old |-> IF hasH THEN h[245] ELSE 64, ins_finetune |-> IF hasH THEN S8(h[246]) ELSE 0,
      ins_relative_note |-> IF hasH THEN S8(h[248]) ELSE 0,
      editor_cursor |-> I32At(h, 392, 0), editor_selected_size |-> I32At(h, 396, 0),
      effect |-> IF eff = <<>> THEN <<>> ELSE <<ReadAll(eff[1].nested)>>,
      is_legacy |-> hasH /\ (sign # <<80, 77, 65, 83>> \/ Len(h) >= 400)]

(* ---- MetaModule *)
ReadMeta(base, cs) ==
  LET pc == MChunk(cs, 0)
      mc == MChunk(cs, 1)
      md == IF mc = <<>> THEN <<>> ELSE mc[1].data
      maps == [i \in 1..96 |-> IF 4 * i <= Len(md) THEN <<DecU16(Slice(md, 4 * (i - 1), 2)), DecU16(Slice(md, 4 * (i - 1) + 2, 2))>> ELSE <<0, 0>>]
  IN [k |-> "meta",
      project |-> IF pc = <<>> THEN ReadAll(<<C("SVOX", <<>>), C("SFFF", EncL32(<<67, 0>>)), C("SEND", <<>>)>>) ELSE ReadAll(pc[1].nested),
      mappings |-> maps,
      labels |-> [i \in 1..96 |-> LET c == MChunk(cs, 7 + i) IN IF c = <<>> THEN <<>> ELSE <<Cut0(c[1].data)>>],
      attached |-> [i \in 1..96 |-> 0], udvals |-> [i \in 1..96 |-> 0], udcmid |-> [i \in 1..96 |-> DefaultCmid]]

ReadModulePayload(m, cs) ==
  LET t == m.mtype  c0 == MChunk(cs, 0) IN
  CASE t = "Sampler" -> ReadSampler(t, cs)
    [] t = "MetaModule" -> ReadMeta(m, cs)
    [] t \in {"Analog generator", "Generator"} ->
         IF c0 = <<>> THEN [k |-> "wave", samples |-> DefaultWave, format |-> 1, freq |-> <<44100, 0>>]
         ELSE [k |-> "wave", samples |-> [i \in 1..Len(c0[1].data) |-> S8(c0[1].data[i])],
               format |-> IF c0[1].chff = <<0, 0>> THEN 1 ELSE c0[1].chff[1], freq |-> c0[1].chfr]
    [] t = "FMX" -> [k |-> "fmx", custom_waveform |-> IF c0 = <<>> THEN [i \in 1..256 |-> <<0, 0, 0, 0>>]
                                                      ELSE [i \in 1..(Len(c0[1].data) \div 4) |-> SubSeq(c0[1].data, 4 * i - 3, 4 * i)]]
    [] t = "Vorbis player" -> [k |-> "vorbis", data |-> IF c0 = <<>> THEN <<>> ELSE c0[1].data]
    [] t = "MultiCtl" ->
         LET c1 == MChunk(cs, 1) IN
         [k |-> "multictl",
          curve |-> IF c1 = <<>> THEN [i \in 1..257 |-> 128 * (i - 1)] ELSE U16s(c1[1].data),
          mappings |-> IF c0 = <<>> THEN [i \in 1..16 |-> << <<0, 0>>, <<32768, 0>>, <<0, 0>>, <<0, 0>>, <<0, 0>>, <<0, 0>>, <<0, 0>>, <<0, 0>> >>]
                       ELSE [i \in 1..(Len(c0[1].data) \div 32) |-> [j \in 1..8 |-> DecL32(Slice(c0[1].data, 32 * (i - 1) + 4 * (j - 1), 4))]]]
    [] t \in SpecTypes /\ Len(SpecData[t].arrays) > 0 /\ t # "FMX" ->
         [k |-> "arrays", arrays |-> [i \in 1..Len(SpecData[t].arrays) |->
              LET a == SpecData[t].arrays[i]  c == MChunk(cs, a.chnm) IN
              <<a.name, IF c = <<>> THEN a.default ELSE ElemsOf(a.etype, c[1].data)>>]]
    [] OTHER -> [k |-> "none"]

(* ---- controller values: the n-th CVAL belongs to the n-th attached controller; applied last, units first *)
ApplyCvals(m, cvals) ==
  IF ~HasSpec(m) THEN m ELSE
  LET cs == Spec(m).ctls
      n == Len(cs)
      rawOf(i) == IF i <= Len(cvals) THEN <<cvals[i]>> ELSE <<>>
      unitVal(c) == IF c.kind # "dep" THEN 0
                    ELSE IF rawOf(c.dep) = <<>> THEN m.ctl[c.dep] ELSE FromRaw(cs[c.dep], 0, rawOf(c.dep)[1])
  IN [m EXCEPT !.ctl = [i \in 1..n |-> IF rawOf(i) = <<>> THEN m.ctl[i] ELSE FromRaw(cs[i], unitVal(cs[i]), rawOf(i)[1])]]
ApplyMetaCvals(m, cvals) ==       \* user defined controllers: CVAL 6.. for the first n, decoded by the target's rule
  IF m.mtype # "MetaModule" THEN m ELSE
  LET n == MetaN(m) IN
  [m EXCEPT !.payload.attached = [i \in 1..96 |-> IF i <= n THEN 1 ELSE 0],
            !.payload.udvals = [i \in 1..96 |->
                LET tg == UDTarget(m, i)  tm == m.payload.project.modules IN
                IF i <= n /\ 5 + i <= Len(cvals) THEN FromRaw(tg[1], tg[2], cvals[5 + i])
                ELSE IF i <= n /\ tg[1].name # "user_defined"             \* no stored value: the target's current value
                     THEN UDTargetVal(m, i)
                     ELSE 0]]
ApplyCmid(m, d) ==
  LET k == Len(d) \div 8
      one(i) == LET b == SubSeq(d, 8 * i - 7, 8 * i) IN <<b[1], b[2], b[3], DecU16(SubSeq(b, 5, 6))>> IN
  [m EXCEPT !.cmid = [i \in 1..Len(m.cmid) |-> IF i <= k THEN one(i) ELSE m.cmid[i]],
            !.payload = IF m.mtype = "MetaModule"
                        THEN [m.payload EXCEPT !.udcmid = [i \in 1..96 |-> IF 5 + i <= k THEN one(5 + i) ELSE m.payload.udcmid[i]]]
                        ELSE m.payload]

S0 == [mode |-> "top", ret |-> "top", file |-> "none", proj |-> DefaultProj, pats |-> <<>>, mods |-> <<>>,
       pat |-> NewPattern, mod |-> BaseModule("", <<>>, <<0, 0>>), cvals |-> <<>>, cmidd |-> <<>>, mcs |-> <<>>,
       sver |-> <<2, 1, 2, 1>>, smod |-> <<>>]

ProcProject(s, c) == LET id == c.id  d == c.data IN
  CASE id = "VERS" -> [s EXCEPT !.proj.vers = Ver(d)]
    [] id = "BVER" -> [s EXCEPT !.proj.bver = Some(Ver(d))]
    [] id = "FLGS" -> [s EXCEPT !.proj.flags = DecL32(d)]
    [] id = "SFGS" -> [s EXCEPT !.proj.syncmidi = d[1] % 8, !.proj.syncother = (d[1] \div 8) % 8]
    [] id = "BPM " -> [s EXCEPT !.proj.bpm = DecL32(d)]
    [] id = "SPED" -> [s EXCEPT !.proj.tpl = DecL32(d)]
    [] id = "TGRD" -> [s EXCEPT !.proj.tgrd = DecL32(d)]
    [] id = "TGD2" -> [s EXCEPT !.proj.tgd2 = DecL32(d)]
    [] id = "GVOL" -> [s EXCEPT !.proj.gvol = DecL32(d)]
    [] id = "NAME" -> [s EXCEPT !.proj.name = Cut0(d)]
    [] id = "MSCL" -> [s EXCEPT !.proj.mscl = DecL32(d)]
    [] id = "MZOO" -> [s EXCEPT !.proj.mzoo = DecL32(d)]
    [] id = "MXOF" -> [s EXCEPT !.proj.mxof = DecI32(d)]
    [] id = "MYOF" -> [s EXCEPT !.proj.myof = DecI32(d)]
    [] id = "LMSK" -> [s EXCEPT !.proj.lmsk = DecL32(d)]
    [] id = "CURL" -> [s EXCEPT !.proj.curl = DecL32(d)]
    [] id = "TIME" -> [s EXCEPT !.proj.time = DecI32(d)]
    [] id = "REPS" -> [s EXCEPT !.proj.reps = DecI32(d)]
    [] id = "SELS" -> [s EXCEPT !.proj.sels = DecL32(d)]
    [] id = "LGEN" -> [s EXCEPT !.proj.lgen = DecI32(d)]
    [] id = "PATN" -> [s EXCEPT !.proj.patn = DecL32(d)]
    [] id = "PATT" -> [s EXCEPT !.proj.patt = DecL32(d)]
    [] id = "PATL" -> [s EXCEPT !.proj.patl = DecL32(d)]
    [] id = "PDTA" -> [s EXCEPT !.mode = "pattern", !.pat = [NewPattern EXCEPT !.raw = d]]
    [] id = "PPAR" -> [s EXCEPT !.mode = "clone", !.pat = [kind |-> "clone", source |-> DecL32(d), flags |-> <<1, 0>>, x |-> 0, y |-> 0]]
    [] id = "PEND" -> [s EXCEPT !.pats = Append(@, [kind |-> "none"])]
    [] id = "SFFF" -> [s EXCEPT !.mode = "module", !.ret = "project", !.cvals = <<>>, !.cmidd = <<>>, !.mcs = <<>>,
                        !.mod = IF Len(s.mods) = 0 THEN BaseModule("Output", <<79, 117, 116, 112, 117, 116>>, DecL32(d))
                                ELSE BaseModule("", <<>>, DecL32(d))]
    [] id = "SEND" -> [s EXCEPT !.mods = Append(@, [kind |-> "none"])]
    [] OTHER -> s
ProcPattern(s, c) == LET id == c.id  d == c.data IN
  CASE id = "PNME" -> [s EXCEPT !.pat.name = Some(Cut0(d))]
    [] id = "PCHN" -> [s EXCEPT !.pat.tracks = DecL32(d)]
    [] id = "PLIN" -> [s EXCEPT !.pat.lines = DecL32(d)]
    [] id = "PYSZ" -> [s EXCEPT !.pat.ysize = DecL32(d)]
    [] id = "PFLG" -> [s EXCEPT !.pat.pflg = DecL32(d)]
    [] id = "PICO" -> [s EXCEPT !.pat.icon = d]
    [] id = "PFGC" -> [s EXCEPT !.pat.fg = d]
    [] id = "PBGC" -> [s EXCEPT !.pat.bg = d]
    [] id = "PFFF" -> [s EXCEPT !.pat.flags = DecL32(d)]
    [] id = "PXXX" -> [s EXCEPT !.pat.x = DecI32(d)]
    [] id = "PYYY" -> [s EXCEPT !.pat.y = DecI32(d)]
    [] id = "PEND" -> [s EXCEPT !.mode = "project", !.pats = Append(@, FinishPattern(s.pat))]
    [] OTHER -> s
ProcClone(s, c) == LET id == c.id  d == c.data IN
  CASE id = "PFFF" -> [s EXCEPT !.pat.flags = DecL32(d)]
    [] id = "PXXX" -> [s EXCEPT !.pat.x = DecI32(d)]
    [] id = "PYYY" -> [s EXCEPT !.pat.y = DecI32(d)]
    [] id = "PEND" -> [s EXCEPT !.mode = "project", !.pats = Append(@, s.pat)]
    [] OTHER -> s
LastMC(s) == s.mcs[Len(s.mcs)]
SetLastMC(s, f) == [s EXCEPT !.mcs = [s.mcs EXCEPT ![Len(s.mcs)] = f]]
FinishModule(s) ==
  LET m0 == s.mod
      m1 == [m0 EXCEPT !.opts = IF HasOpts(m0) THEN ReadOpts(m0.mtype, s.mcs) ELSE m0.opts,
                       !.payload = ReadModulePayload(m0, s.mcs)]
      m2 == ApplyCmid(m1, s.cmidd)
      m3 == ApplyMetaCvals(ApplyCvals(m2, s.cvals), s.cvals)
  IN m3
ProcModule(s, c) == LET id == c.id  d == c.data IN
  CASE id = "SFFF" -> [s EXCEPT !.mod.flags = DecL32(d)]
    [] id = "SNAM" -> IF s.mod.mtype = "Output" THEN s ELSE [s EXCEPT !.mod.name = Cut0(d)]
    [] id = "STYP" -> LET t == TypeOfBytes(Cut0(d)) IN
         [s EXCEPT !.mod = BaseModule(t, s.mod.name, IF t \in SpecTypes THEN OrL(s.mod.flags, SpecData[t].flags) ELSE s.mod.flags)]
    [] id = "SFIN" -> [s EXCEPT !.mod.fin = DecI32(d)]
    [] id = "SREL" -> [s EXCEPT !.mod.rel = DecI32(d)]
    [] id = "SXXX" -> [s EXCEPT !.mod.x = DecI32(d)]
    [] id = "SYYY" -> [s EXCEPT !.mod.y = DecI32(d)]
    [] id = "SZZZ" -> [s EXCEPT !.mod.layer = DecI32(d)]
    [] id = "SSCL" -> [s EXCEPT !.mod.scale = DecL32(d)]
    [] id = "SVPR" -> [s EXCEPT !.mod.vis = DecL32(d), !.mod.visf = VisF(DecL32(d))]
    [] id = "SCOL" -> [s EXCEPT !.mod.color = d]
    [] id = "SMII" -> [s EXCEPT !.mod.midi_in_always = d[1] % 2, !.mod.midi_in_channel = DecI32(d) \div 2]
    [] id = "SMIN" -> [s EXCEPT !.mod.moname = Some(Cut0(d))]
    [] id = "SMIC" -> [s EXCEPT !.mod.moch = DecI32(d)]
    [] id = "SMIB" -> [s EXCEPT !.mod.mobank = DecI32(d)]
    [] id = "SMIP" -> [s EXCEPT !.mod.moprog = DecI32(d)]
    [] id = "SLNK" -> [s EXCEPT !.mod.inl = StripT(@ \o I32List(d))]
    [] id = "SLnK" -> [s EXCEPT !.mod.ins = StripT(@ \o I32List(d))]
    [] id = "CVAL" -> [s EXCEPT !.cvals = Append(@, DecI32(d))]
    [] id = "CMID" -> [s EXCEPT !.cmidd = d]
    [] id = "CHNM" -> [s EXCEPT !.mcs = Append(@, NewMChunk(DecI32(d)))]
    [] id = "CHDT" -> IF s.mcs = <<>> THEN s ELSE SetLastMC(s, [LastMC(s) EXCEPT !.data = d, !.isn = c.isn, !.nested = c.nested])
    [] id = "CHFF" -> IF s.mcs = <<>> THEN s ELSE SetLastMC(s, [LastMC(s) EXCEPT !.chff = DecL32(d)])
    [] id = "CHFR" -> IF s.mcs = <<>> THEN s ELSE SetLastMC(s, [LastMC(s) EXCEPT !.chfr = DecL32(d)])
    [] id = "SEND" -> LET m == FinishModule(s) IN
                      IF s.ret = "project" THEN [s EXCEPT !.mode = "project", !.mods = Append(@, m)]
                      ELSE [s EXCEPT !.mode = "synth", !.smod = Some(m)]
    [] OTHER -> s
ProcSynth(s, c) ==
  CASE c.id = "VERS" -> [s EXCEPT !.sver = Ver(c.data)]
    [] c.id = "SFFF" -> [s EXCEPT !.mode = "module", !.ret = "synth", !.cvals = <<>>, !.cmidd = <<>>, !.mcs = <<>>,
                          !.mod = BaseModule("", <<>>, DecL32(c.data))]
    [] OTHER -> s
Proc(s, c) ==
  CASE s.mode = "top" -> (CASE c.id = "SVOX" -> [s EXCEPT !.mode = "project", !.file = "project"]
                            [] c.id = "SSYN" -> [s EXCEPT !.mode = "synth", !.file = "synth"]
                            [] OTHER -> s)
    [] s.mode = "project" -> ProcProject(s, c)
    [] s.mode = "pattern" -> ProcPattern(s, c)
    [] s.mode = "clone"   -> ProcClone(s, c)
    [] s.mode = "module"  -> ProcModule(s, c)
    [] s.mode = "synth"   -> ProcSynth(s, c)
    [] OTHER -> s

(* ---- end of file: trailing empty slots dropped, link tables rebuilt (RVLinks!LoadFile), legacy module byte *)
DropTrailingNone(ms) == IF \E i \in 1..Len(ms) : ms[i].kind # "none"
   THEN SubSeq(ms, 1, CHOOSE i \in 1..Len(ms) : ms[i].kind # "none" /\ \A j \in (i+1)..Len(ms) : ms[j].kind = "none") ELSE <<>>
Older(v, w) == \E i \in 1..4 : v[i] < w[i] /\ \A j \in 1..(i-1) : v[j] = w[j]
LegacyPat(p) == IF p.kind # "pattern" THEN p ELSE [p EXCEPT !.cells = [i \in 1..Len(p.cells) |-> [p.cells[i] EXCEPT ![3] = @ % 256]]]
Relink(ms) ==
  LET ex == [i \in 1..Len(ms) |-> ms[i].kind # "none"]
      file == [i \in 1..Len(ms) |-> IF ex[i] THEN [slnk |-> ms[i].inl, slnK |-> IF ms[i].ins = <<>> THEN <<>> ELSE <<ms[i].ins>>]
                                    ELSE [slnk |-> <<>>, slnK |-> <<>>]]
      t == LoadFile(file, ex)
  IN [i \in 1..Len(ms) |-> IF ex[i] THEN [ms[i] EXCEPT !.inl = t.inl[i], !.ins = t.ins[i], !.outl = t.outl[i], !.outs = t.outs[i]] ELSE ms[i]]
Finish(s) ==
  IF s.file = "project" THEN
    LET ms == Relink(DropTrailingNone(s.mods))
        pj == [s.proj EXCEPT !.bver = IF @ = None THEN <<1, 7, 0, 0>> ELSE @[1]]
        ps == IF Older(pj.vers, <<1, 9, 5, 0>>) THEN [i \in 1..Len(s.pats) |-> LegacyPat(s.pats[i])] ELSE s.pats
    IN [kind |-> "project", proj |-> pj, patterns |-> ps, modules |-> ms]
  ELSE IF s.file = "synth" THEN [kind |-> "synth", vers |-> s.sver, module |-> s.smod]
  ELSE [kind |-> "none"]
ReadAll(chunks) == Finish(FoldLeft(Proc, S0, chunks))
Read(chunks) == ReadAll(chunks)

(* ============================================================================ *)
(*                     documented storage limits (C01 / C02)                    *)
(* ============================================================================ *)
RECURSIVE NormObj(_), NormModule(_, _)
NormPayload(m) ==
  CASE m.payload.k = "meta" ->
        LET n == MetaN(m) IN
        [m.payload EXCEPT !.project = NormObj(@),
                          !.labels = [i \in 1..Len(@) |-> IF i <= n THEN @[i] ELSE <<>>],          \* only exposed controllers are written
                          !.udvals = [i \in 1..Len(@) |-> IF i <= n THEN @[i] ELSE 0],
                          !.udcmid = [i \in 1..Len(@) |-> IF i <= n THEN @[i] ELSE DefaultCmid]]
    [] m.payload.k = "sampler" ->
        [m.payload EXCEPT !.effect = IF @ = <<>> THEN @ ELSE <<NormObj(@[1])>>, !.is_legacy = FALSE,
                          !.instrument_name = RStrip0(Pad(@, 22)),                                   \* char[22] fields
                          !.samples = [i \in 1..Len(@) |-> IF @[i] = <<>> THEN <<>> ELSE <<[@[i][1] EXCEPT !.name = RStrip0(Pad(@, 22))]>>]]
    [] OTHER -> m.payload
NormModule(m, inproj) ==
  IF m.kind = "none" THEN m ELSE
  LET a == [m EXCEPT !.name = IF m.mtype = "Output" THEN @ ELSE Cut0(Utf8Prefix(@, 32)),
                     !.flags = IF HasSpec(m) THEN OrL(@, Spec(m).flags) ELSE @,
                     !.moname = IF @ = << <<>> >> THEN <<>> ELSE @,
                     !.inl = StripT(@), !.ins = StripT(@), !.outl = StripT(@), !.outs = StripT(@),
                     !.visf = VisF(m.vis),
                     !.payload = NormPayload(m)]
  IN IF inproj THEN a
     ELSE [a EXCEPT !.x = 512, !.y = 512, !.layer = 0, !.vis = <<257, 12>>, !.visf = VisF(<<257, 12>>),       \* not stored in a .sunsynth
                    !.inl = <<>>, !.ins = <<>>, !.outl = <<>>, !.outs = <<>>]
NormObj(o) ==
  IF o.kind = "project" THEN [o EXCEPT !.modules = LET ms == DropTrailingNone(@) IN [i \in 1..Len(ms) |-> NormModule(ms[i], TRUE)]]
  ELSE IF o.kind = "synth" THEN [o EXCEPT !.module = IF @ = <<>> THEN @ ELSE <<NormModule(@[1], FALSE)>>]
  ELSE o
Norm(o) == NormObj(o)

(* version stamps blanked (recursively): a file is always re-stamped with the writing library's version *)
RECURSIVE BlankVers(_)
BlankMod(m) == IF m.kind = "none" THEN m ELSE
  [m EXCEPT !.payload = CASE @.k = "meta" -> [@ EXCEPT !.project = BlankVers(@)]
                          [] @.k = "sampler" -> [@ EXCEPT !.effect = IF @ = <<>> THEN @ ELSE <<BlankVers(@[1])>>]
                          [] OTHER -> @]
BlankVers(o) == IF o.kind = "project" THEN [o EXCEPT !.proj.vers = <<0, 0, 0, 0>>, !.modules = [i \in 1..Len(@) |-> BlankMod(@[i])]]
                ELSE IF o.kind = "synth" THEN [o EXCEPT !.vers = <<0, 0, 0, 0>>, !.module = IF @ = <<>> THEN @ ELSE <<BlankMod(@[1])>>]
                ELSE o

(* ---- where two abstract objects differ: <<path, expected, observed>>, <<>> if equal *)
RECURSIVE DiffObj(_, _)
FieldDiff(a, b) == IF DOMAIN a # DOMAIN b THEN "<fields>" ELSE
                   LET bad == {f \in DOMAIN a : a[f] # b[f]} IN IF bad = {} THEN "" ELSE CHOOSE f \in bad : TRUE
Sub(prefix, d) == IF d = <<>> THEN <<>> ELSE <<prefix \o d[1], d[2], d[3]>>
Leaf(a, b, f) == IF f = "" THEN <<>> ELSE IF f = "<fields>" THEN <<f, DOMAIN a, DOMAIN b>> ELSE <<f, a[f], b[f]>>
SeqDiff(name, a, b) ==     \* first differing element of two sequences
  IF Len(a) # Len(b) THEN <<name \o ".length", Len(a), Len(b)>>
  ELSE LET bad == {i \in 1..Len(a) : a[i] # b[i]} IN
       IF bad = {} THEN <<>> ELSE LET i == CHOOSE i \in bad : \A j \in bad : i <= j IN <<name \o "[" \o ToString(i - 1) \o "]", a[i], b[i]>>
DiffPayload(a, b) ==
  IF a.k # b.k THEN <<"k", a.k, b.k>> ELSE
  LET f == FieldDiff(a, b) IN
  IF a.k = "meta" /\ f = "project" THEN Sub("project.", DiffObj(a.project, b.project))
  ELSE IF a.k = "sampler" /\ f = "effect" /\ a.effect # <<>> /\ b.effect # <<>> THEN Sub("effect.", DiffObj(a.effect[1], b.effect[1]))
  ELSE IF f \notin {"", "<fields>"} /\ f \in {"samples", "envs", "labels", "udvals", "udcmid", "mappings", "note_samples", "arrays", "attached"}
       THEN SeqDiff(f, a[f], b[f])
  ELSE Leaf(a, b, f)
DiffModule(a, b) ==
  IF a.kind # b.kind THEN <<"kind", a.kind, b.kind>> ELSE IF a.kind = "none" THEN <<>> ELSE
  LET f == FieldDiff(a, b) IN
  IF f = "payload" THEN Sub("payload.", DiffPayload(a.payload, b.payload))
  ELSE IF f \in {"ctl", "cmid", "opts"} THEN SeqDiff(f, a[f], b[f]) ELSE Leaf(a, b, f)
DiffObj(a, b) ==
  IF a.kind # b.kind THEN <<"kind", a.kind, b.kind>> ELSE
  IF a.kind = "project" THEN
     IF a.proj # b.proj THEN Sub("proj.", Leaf(a.proj, b.proj, FieldDiff(a.proj, b.proj)))
     ELSE IF Len(a.patterns) # Len(b.patterns) THEN <<"patterns.length", Len(a.patterns), Len(b.patterns)>>
     ELSE IF a.patterns # b.patterns THEN
        LET i == CHOOSE i \in 1..Len(a.patterns) : a.patterns[i] # b.patterns[i] IN
        IF a.patterns[i].kind # b.patterns[i].kind THEN <<"patterns[" \o ToString(i - 1) \o "].kind", a.patterns[i].kind, b.patterns[i].kind>>
        ELSE Sub("patterns[" \o ToString(i - 1) \o "].", Leaf(a.patterns[i], b.patterns[i], FieldDiff(a.patterns[i], b.patterns[i])))
     ELSE IF Len(a.modules) # Len(b.modules) THEN <<"modules.length", Len(a.modules), Len(b.modules)>>
     ELSE LET bad == {i \in 1..Len(a.modules) : a.modules[i] # b.modules[i]} IN
          IF bad = {} THEN <<>> ELSE LET i == CHOOSE i \in bad : \A j \in bad : i <= j IN
          Sub("modules[" \o ToString(i - 1) \o "]:" \o (IF a.modules[i].kind = "module" THEN a.modules[i].mtype ELSE "none") \o ".",
              DiffModule(a.modules[i], b.modules[i]))
  ELSE IF a.kind = "synth" THEN
     IF a.vers # b.vers THEN <<"vers", a.vers, b.vers>>
     ELSE IF Len(a.module) # Len(b.module) THEN <<"module.length", Len(a.module), Len(b.module)>>
     ELSE IF a.module = <<>> THEN <<>> ELSE Sub("module:" \o a.module[1].mtype \o ".", DiffModule(a.module[1], b.module[1]))
  ELSE <<>>

(* ============================================================================ *)
(*     structural rules of every written stream (C03), each named separately     *)
(* ============================================================================ *)
(* a fold over the chunks that tracks the open section and collects the names of violated rules *)
(* fixed-size array blocks: (module type, block number) -> documented CHDT size in bytes *)
ArrayBytes ==
  (<<"Generator", 0>> :> 32) @@ (<<"Analog generator", 0>> :> 32) @@ (<<"FMX", 0>> :> 1024) @@ (<<"WaveShaper", 0>> :> 512)
  @@ (<<"MultiCtl", 0>> :> 512) @@ (<<"MultiCtl", 1>> :> 514) @@ (<<"MetaModule", 1>> :> 384)
  @@ (<<"MultiSynth", 0>> :> 128) @@ (<<"MultiSynth", 2>> :> 257) @@ (<<"MultiSynth", 3>> :> 256)
  @@ (<<"SpectraVoice", 0>> :> 32) @@ (<<"SpectraVoice", 1>> :> 16) @@ (<<"SpectraVoice", 2>> :> 16) @@ (<<"SpectraVoice", 3>> :> 16)
St0 == [mode |-> "top", bad |-> {}, ncval |-> 0, cmid |-> -1, chnk |-> -1, maxchnm |-> -1, lastchnm |-> -1, mtype |-> "",
        pdta |-> -1, plin |-> 32, pchn |-> 4, udc |-> 0, first |-> TRUE]
RECURSIVE StructFold(_, _), StructBad(_)
ExpectedCvals(s) == IF s.mtype \in SpecTypes THEN Len(Ctls(s.mtype)) + (IF s.mtype = "MetaModule" THEN s.udc ELSE 0) ELSE 0
CloseModule(s) ==
  LET b1 == IF s.ncval # ExpectedCvals(s) THEN {"cval-count-differs-from-attached-controllers"} ELSE {}
      b2 == IF s.ncval > 0 /\ s.cmid # 8 * s.ncval THEN {"cmid-not-8-bytes-per-value"} ELSE {}
      b3 == IF s.maxchnm >= 0 /\ s.maxchnm >= s.chnk THEN {"chnm-not-below-chnk"} ELSE {} IN
  [s EXCEPT !.bad = @ \cup b1 \cup b2 \cup b3, !.mode = "body"]
StructStep(s, c) ==
  LET id == c.id  d == c.data
      s1 == IF s.first THEN [s EXCEPT !.first = FALSE,
                                      !.bad = IF id \in {"SVOX", "SSYN"} /\ d = <<>> THEN @ ELSE @ \cup {"header-chunk-not-first"},
                                      !.mode = "body"] ELSE s IN
  IF s.first THEN s1 ELSE
  CASE s.mode = "body" /\ id = "PDTA" -> [s EXCEPT !.mode = "pattern", !.pdta = Len(d), !.plin = 32, !.pchn = 4]
    [] s.mode = "body" /\ id = "PPAR" -> [s EXCEPT !.mode = "clone"]
    [] s.mode = "body" /\ id = "SFFF" -> [s EXCEPT !.mode = "module", !.ncval = 0, !.cmid = -1, !.chnk = -1, !.maxchnm = -1,
                                                   !.lastchnm = -1, !.mtype = "Output", !.udc = 0]
    [] s.mode = "pattern" /\ id = "PLIN" -> [s EXCEPT !.plin = DecI32(d)]
    [] s.mode = "pattern" /\ id = "PCHN" -> [s EXCEPT !.pchn = DecI32(d)]
    [] s.mode = "pattern" /\ id = "PEND" -> [s EXCEPT !.mode = "body",
                                                !.bad = IF s.pdta = s.plin * s.pchn * 8 THEN @ ELSE @ \cup {"pdta-not-lines-x-tracks-x-8"}]
    [] s.mode = "clone" /\ id = "PEND" -> [s EXCEPT !.mode = "body"]
    [] s.mode = "module" /\ id = "SNAM" -> [s EXCEPT !.bad = IF Len(d) = 32 THEN @ ELSE @ \cup {"snam-not-32-bytes"}]
    [] s.mode = "module" /\ id = "STYP" -> [s EXCEPT !.mtype = TypeOfBytes(Cut0(d))]
    [] s.mode = "module" /\ id = "CVAL" -> [s EXCEPT !.ncval = @ + 1, !.bad = IF Len(d) = 4 THEN @ ELSE @ \cup {"cval-not-4-bytes"}]
    [] s.mode = "module" /\ id = "CMID" -> [s EXCEPT !.cmid = Len(d)]
    [] s.mode = "module" /\ id = "CHNK" -> [s EXCEPT !.chnk = DecI32(d)]
    [] s.mode = "module" /\ id = "CHNM" -> [s EXCEPT !.lastchnm = DecI32(d), !.maxchnm = IF DecI32(d) > @ THEN DecI32(d) ELSE @,
                                                    !.bad = IF s.chnk < 0 THEN @ \cup {"chnm-without-chnk"} ELSE @]
    [] s.mode = "module" /\ id = "CHDT" ->
         LET rec == IF s.mtype = "Sampler" /\ ~c.isn THEN
                      (IF s.lastchnm = 0 /\ Len(d) # 400 THEN {"sampler-header-not-400-bytes"} ELSE {})
                      \cup (IF s.lastchnm >= 1 /\ s.lastchnm <= 255 /\ s.lastchnm % 2 = 1 /\ Len(d) # 44 THEN {"sample-record-not-44-bytes"} ELSE {})
                      \cup (IF s.lastchnm >= 258 /\ s.lastchnm <= 264 /\ (Len(d) < 20 \/ Len(d) # 20 + 4 * DecU16(Slice(d, 8, 2)))
                            THEN {"envelope-not-0x14-plus-4-per-point"} ELSE {})
                    ELSE {}
             arr == IF ~c.isn /\ <<s.mtype, s.lastchnm>> \in DOMAIN ArrayBytes /\ Len(d) # ArrayBytes[<<s.mtype, s.lastchnm>>]
                    THEN {"array-block-not-documented-size"} ELSE {}
             nest == IF c.isn THEN StructBad(c.nested) ELSE {} IN
         [s EXCEPT !.bad = @ \cup rec \cup arr \cup nest,
                   !.udc = IF s.mtype = "MetaModule" /\ s.lastchnm = 2 /\ Len(d) >= 1 THEN d[1] ELSE @]
    [] s.mode = "module" /\ id = "SEND" -> CloseModule(s)
    [] OTHER -> s
StructFold(s, cs) == FoldLeft(StructStep, s, cs)
StructBad(cs) == LET s == StructFold(St0, cs) IN
                 s.bad \cup (IF s.mode \in {"body", "top"} THEN {} ELSE {"unterminated-" \o s.mode \o "-slot"})

(* does the object contain an instrument in the replayed legacy layout?  Its bytes are not a   *)
(* function of the public state, so Write does not apply to it (see known finding on C06/C16)  *)
RECURSIVE HasLegacy(_)
ModLegacy(m) == m.kind = "module" /\
  CASE m.payload.k = "sampler" -> m.payload.is_legacy \/ (m.payload.effect # <<>> /\ HasLegacy(m.payload.effect[1]))
    [] m.payload.k = "meta" -> HasLegacy(m.payload.project)
    [] OTHER -> FALSE
HasLegacy(o) == IF o.kind = "project" THEN \E i \in 1..Len(o.modules) : ModLegacy(o.modules[i])
                ELSE IF o.kind = "synth" THEN o.module # <<>> /\ ModLegacy(o.module[1]) ELSE FALSE

(* first index at which two chunk streams differ (0 = equal), descending into nested containers *)
RECURSIVE FirstDiff(_, _)
FirstDiff(a, b) ==
  LET n == IF Len(a) < Len(b) THEN Len(a) ELSE Len(b)
      bad == {i \in 1..n : a[i] # b[i]} IN
  IF bad = {} THEN (IF Len(a) = Len(b) THEN <<>> ELSE <<n + 1>>)
  ELSE LET i == CHOOSE i \in bad : \A j \in bad : i <= j IN
       IF a[i].isn /\ b[i].isn /\ a[i].id = b[i].id THEN <<i>> \o FirstDiff(a[i].nested, b[i].nested) ELSE <<i>>
(* all differing positions when the streams have the same shape (so that one known deviation does *)
(* not hide the others), else the first *)
RECURSIVE Diffs(_, _)
Diffs(a, b) ==
  IF Len(a) # Len(b) \/ \E i \in 1..Len(a) : a[i].id # b[i].id \/ a[i].isn # b[i].isn THEN <<FirstDiff(a, b)>>
  ELSE FlattenSeq([i \in 1..Len(a) |-> IF a[i] = b[i] THEN <<>>
                   ELSE IF a[i].isn THEN [k \in 1..Len(Diffs(a[i].nested, b[i].nested)) |-> <<i>> \o Diffs(a[i].nested, b[i].nested)[k]]
                   ELSE << <<i>> >>])
RECURSIVE At(_, _)
At(a, path) == IF path = <<>> THEN [id |-> "<stream>", data |-> <<>>, isn |-> FALSE, nested |-> <<>>]
               ELSE IF path[1] > Len(a) THEN C("<end>", <<>>)
               ELSE IF Len(path) = 1 THEN [a[path[1]] EXCEPT !.nested = <<>>] ELSE At(a[path[1]].nested, Tail(path))
(* a label for the chunk at a path: its id, the CHNM before it, and the module section it lies in *)
RECURSIVE Ctx(_, _)
Ctx(a, path) ==
  IF path = <<>> \/ path[1] > Len(a) THEN "<end>" ELSE
  LET i == path[1]
      sff == {j \in 1..i : a[j].id = "SFFF"}
      lastsf == IF sff = {} THEN 0 ELSE CHOOSE j \in sff : \A k \in sff : k <= j
      chn == {j \in 1..(i-1) : a[j].id = "CHNM" /\ j > lastsf}
      lastch == IF chn = {} THEN 0 ELSE CHOOSE j \in chn : \A k \in chn : k <= j
  IN a[i].id \o (IF a[i].id \in {"CHDT", "CHFF", "CHFR"} /\ lastch # 0 THEN "[chnm=" \o ToString(DecI32(a[lastch].data)) \o "]" ELSE "")
     \o (IF Len(path) > 1 THEN "/" \o Ctx(a[i].nested, Tail(path)) ELSE "")
=============================================================================

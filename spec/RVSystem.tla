-------------------------------- MODULE RVSystem --------------------------------
(***************************************************************************)
(* A workspace of the library as one state machine: two projects, free     *)
(* modules, patterns, link tables, one controller per module and the       *)
(* process-wide strictness flag.  Every public call is one action,         *)
(* composed from the per-feature specifications:                           *)
(*   RVProject  attach / new_module / attach(None) / attach_pattern / += / *)
(*              note.mod                                                   *)
(*   RVLinks    connect / disconnect with list operands; the reader's      *)
(*              reconstruction on save+load                                *)
(*   RVCtl      assignment in strict / lenient mode                        *)
(*   RVLoad     a load (successful or failing) leaves the flag as it was    *)
(* The point of the composition is the interaction: link tables name       *)
(* module POSITIONS, attaching fills gaps, save+load drops trailing gaps    *)
(* and rebuilds the tables of the modules that remain.                     *)
(***************************************************************************)
EXTENDS RVProject, RVLinks

(* w = [p |-> RVProject state, t |-> [module id -> its four link lists], vol |-> [module id -> value], strict |-> BOOLEAN] *)
NoLinks == [inl |-> <<>>, ins |-> <<>>, outl |-> <<>>, outs |-> <<>>]
(* module id nm is a MultiCtl; map[i] is the controller number named by its i-th mapping (0 = none, 1 = the volume)      *)
(* opt[m]: two independent boolean options of module m (a MetaModule's `arpeggiator`, off by default, and `event_output`, on by   *)
(* default): only SysSetOpt changes them - they survive attach, connect, save+load, a failed load elsewhere, and a clone has them *)
InitW(nm, np) == [p |-> InitState(nm, np), t |-> [m \in 1..nm |-> NoLinks], vol |-> [m \in 1..nm |-> 256], strict |-> TRUE,
                  map |-> [i \in 1..4 |-> 0], opt |-> [m \in 1..nm |-> <<0, 1>>]]
ResW(o, ws, r) == [outcome |-> o, posts |-> ws, ret |-> r]
Lift(w, r) == ResW(r.outcome, {[w EXCEPT !.p = q] : q \in r.posts}, r.ret)

(* link tables of project P as RVLinks tables over POSITIONS (an empty position has empty lists) *)
TablesOf(w, P) == LET sl == w.p.slots[P]  f(k) == [i \in 1..Len(sl) |-> IF sl[i] = 0 THEN <<>> ELSE w.t[sl[i]][k]] IN
                  [inl |-> f("inl"), ins |-> f("ins"), outl |-> f("outl"), outs |-> f("outs")]
WithTables(w, P, tb) == LET sl == w.p.slots[P] IN
  [w EXCEPT !.t = [m \in DOMAIN w.t |-> IF Has(sl, m)
       THEN LET i == IndexOf(sl, m) IN [inl |-> tb.inl[i], ins |-> tb.ins[i], outl |-> tb.outl[i], outs |-> tb.outs[i]]
       ELSE w.t[m]]]
(* operands are module ids with a ~ flag; a module that is not in project P is foreign to the request *)
PosOf(w, P, o) == [m |-> IF Has(w.p.slots[P], o.m) THEN IndexOf(w.p.slots[P], o.m) - 1 ELSE -2, neg |-> o.neg]
SysConnect(w, P, A, B) ==
  LET tb == TablesOf(w, P)
      r == ConnectRes(tb, [i \in 1..Len(A) |-> PosOf(w, P, A[i])], [i \in 1..Len(B) |-> PosOf(w, P, B[i])]) IN
  ResW(r.outcome, {WithTables(w, P, q) : q \in r.posts}, 0)

(* save + load of project P: trailing empty positions dropped, tables rebuilt by the reader from what the file holds *)
SysSaveLoad(w, P) ==
  LET sl == DropTrailing0(w.p.slots[P])
      w1 == [w EXCEPT !.p.slots[P] = sl]
      tb == TablesOf(w1, P)
      ex == [i \in 1..Len(sl) |-> sl[i] # 0]
      file == [i \in 1..Len(sl) |-> [slnk |-> tb.inl[i], slnK |-> IF NeedSlots(tb.ins[i]) THEN <<tb.ins[i]>> ELSE <<>>]]
      ld == LoadFile(file, ex) IN
  ResW("ok", {WithTables(w1, P, ld)}, 0)

(* controller assignment: Amplifier-like range 0..1024 *)
SysSetVol(w, m, v) ==
  IF 0 <= v /\ v <= 1024 THEN ResW("ok", {[w EXCEPT !.vol[m] = v]}, 0)
  ELSE IF w.strict THEN ResW("ControllerValueError", {w}, 0)
  ELSE ResW("ok", {[w EXCEPT !.vol[m] = v], w}, 0)
(* a load that fails (or succeeds) elsewhere must leave the flag alone *)
SysFailedLoad(w) == ResW("exception", {w}, 0)

(* bulk edit of pattern q (two cells; the note that note.mod reads is cell 1): all-or-nothing; a dense edit installs notes *)
(* carrying module number n in every cell, a sparse edit (generator form) touches cell 2 only - cell 1 keeps its content   *)
(* and must keep resolving against the pattern's own project                                                              *)
SysBulk(w, q, n, fail, sparse) ==
  IF fail THEN ResW("callable-exception", {w}, 0)
  ELSE IF sparse THEN ResW("ok", {w}, 0)
  ELSE ResW("ok", {[w EXCEPT !.p.nmod[q] = n]}, 0)
(* Module.clone(): a free copy (through serialization) of module src, bound to the free id dst: same controller value, no links *)
SysClone(w, src, dst) == ResW("ok", {[w EXCEPT !.vol[dst] = w.vol[src], !.t[dst] = NoLinks, !.opt[dst] = w.opt[src]]}, 0)
(* option assignment (RVOptions for two independent one-bit options): the option reads back as assigned, the other one stays *)
SysSetOpt(w, m, k, v) == ResW("ok", {[w EXCEPT !.opt[m][k] = v]}, 0)

(* ---- MultiCtl (RVMultiCtl composed with the link tables): mapping i belongs to the MultiCtl's i-th OUT slot.          *)
SysSetMap(w, i, c) == ResW("ok", {[w EXCEPT !.map[i] = c]}, 0)
(* the targets a feed reaches: [slot |-> i, mod |-> module id] for every live out slot whose mapping names a controller;  *)
(* a freed slot (-1) is no link and reaches nobody                                                                        *)
FeedTargets(w, mc) ==
  LET P == w.p.parent[mc] IN
  IF P = 0 THEN {} ELSE
  {[slot |-> i, mod |-> w.p.slots[P][w.t[mc].outl[i] + 1]] :
      i \in {k \in 1..Len(w.t[mc].outl) : k <= 4 /\ w.t[mc].outl[k] >= 0 /\ w.map[k] = 1}}
(* feeding the extreme inputs through the default window / gain / curve delivers the target range's end points *)
SysFeed(w, mc, v) ==
  LET tg == {x.mod : x \in FeedTargets(w, mc)} IN
  ResW("ok", {[w EXCEPT !.vol = [m \in DOMAIN w.vol |-> IF m \in tg THEN (IF v = 0 THEN 0 ELSE 1024) ELSE w.vol[m]]]}, 0)

SysCoherent(w) ==
  /\ Coherent(w.p)
  /\ w.strict = TRUE
  /\ \A P \in 1..2 : Consistent(TablesOf(w, P))
  /\ \A m \in DOMAIN w.t : w.p.parent[m] = 0 => w.t[m] = NoLinks          \* a free module has no links
=============================================================================

------------------------------- MODULE MC_RVCtl -------------------------------
(* Design-level check over constant data: the stored encoding is a bijection,  *)
(* non-negative for negative minima, and injective, for EVERY value of EVERY    *)
(* controller class of the YAML (all unit variants); and a small state machine  *)
(* for assignment: in strict mode a fixed-range controller never leaves its     *)
(* domain and a rejected assignment changes nothing.                            *)
EXTENDS RVCtl
VARIABLES t, i, u, strict, val
vars == <<t, i, u, strict, val>>
Units(c, tt) == IF c.kind = "dep" THEN MemberValues(SpecData[tt].ctls[c.dep]) ELSE {0}
Init == /\ t \in SpecTypes /\ i \in 1..Len(SpecData[t].ctls)
        /\ u \in Units(SpecData[t].ctls[i], t) /\ strict \in BOOLEAN
        /\ val = SpecData[t].ctls[i].default
Cc == SpecData[t].ctls[i]
Probe == LET c == Cc IN
  IF c.kind = "enum" THEN {[k |-> "int", v |-> x] : x \in MemberValues(c) \cup {-1, 999}}
                          \cup {[k |-> "name", n |-> x] : x \in MemberNames(c) \cup {"no_such_member"}}
  ELSE IF c.kind = "bool" THEN {[k |-> "int", v |-> x] : x \in {0, 1, 2}}
  ELSE {[k |-> "int", v |-> x] : x \in {CMin(c, u) - 1, CMin(c, u), (CMin(c, u) + CMax(c, u)) \div 2, CMax(c, u), CMax(c, u) + 1}}
Next == \E a \in Probe : LET r == SetRes(Cc, u, strict, val, a) IN
           /\ val' \in r.vals /\ UNCHANGED <<t, i, u, strict>>
           /\ Assert(r.out \notin {"ok", "not-cve"} => r.vals = {val}, "rejected assignment must leave the value")
StrictInDomain == (strict /\ Cc.kind \in RangeKinds) => InRange(Cc, u, val)
EnumInDomain == Cc.kind = "enum" => val \in MemberValues(Cc)
Encoding == (strict /\ val = Cc.default) => (Bijective(Cc, u) /\ (CMax(Cc, u) - CMin(Cc, u) <= 600 => Injective(Cc, u)))
=============================================================================

--------------------------- MODULE Trace_RVRegistry ---------------------------
(***************************************************************************)
(* C13: the import-time registry of module classes against the YAML.       *)
(* State: registered (set of type names).  Register(mtype, meta) is        *)
(* accepted iff mtype is a specified type, not yet registered, and meta     *)
(* equals the specification clause by clause.  At the end exactly the       *)
(* specified types must be registered.                                     *)
(***************************************************************************)
EXTENDS RVSpecData, TLCExt, SequencesExt
Traces == JsonDeserialize(IOEnv.RV_TRACE_FILE)
VARIABLES registered, tid, l, ok
TInit == tid \in 1..Len(Traces) /\ l = 1 /\ ok = TRUE /\ registered = {}
Ev == Traces[tid].events[l]
Say(clause, exp, got) ==
  PrintT(ToJson([v |-> "MISMATCH", id |-> Traces[tid].id, l |-> l, op |-> Ev.mtype, clause |-> clause, exp |-> exp, got |-> got]))
Check(good, clause, exp, got) == IF good THEN TRUE ELSE Say(clause, exp, got)

CtlFields == {"name", "kind", "min", "max", "default", "members", "dep", "ranges", "defrange"}
OptFields == {"name", "byte", "bit", "size", "default", "inverted", "hasmm", "min", "max", "exclusive_of", "number", "hasnumber", "isenum", "members"}
SetOfSeq(q) == {q[i] : i \in 1..Len(q)}
(* first differing field of the i-th controller, "" if none; order of enum members and of   *)
(* the unit table is immaterial (compared as sets), everything else literally                *)
CtlDiff(s, m, i) ==
  IF m.number # i THEN "number"
  ELSE IF m.attached # s.attached THEN "attached"
  ELSE LET bad == {f \in CtlFields : IF f \in {"members", "ranges"} THEN SetOfSeq(s[f]) # SetOfSeq(m[f]) \/ Len(s[f]) # Len(m[f])
                                     ELSE s[f] # m[f]} IN
       IF bad = {} THEN "" ELSE CHOOSE f \in bad : TRUE
OptDiff(s, m) ==
  LET bad == {f \in OptFields : IF f = "members" THEN SetOfSeq(s[f]) # SetOfSeq(m[f])
                                ELSE IF f = "exclusive_of" THEN SetOfSeq(s[f]) # SetOfSeq(m[f]) ELSE s[f] # m[f]} IN
  IF m.attr # m.name THEN "attribute-name" ELSE IF bad = {} THEN "" ELSE CHOOSE f \in bad : TRUE

Register(e) ==
  LET t == e.mtype  m == e.meta IN
  IF t \notin SpecTypes THEN Check(FALSE, "class-not-in-spec", "a specified type", t) /\ ok' = FALSE /\ UNCHANGED registered
  ELSE IF t \in registered THEN Check(FALSE, "registered-twice", "", t) /\ ok' = FALSE /\ UNCHANGED registered
  ELSE
  LET s == SpecData[t]
      n == Len(s.ctls)
      g0 == m.mtype = t /\ m.constructible
      g1 == m.group = s.group
      g2 == m.flags = s.flags
      g3 == Len(m.ctls) >= n
      badc == IF g3 THEN {i \in 1..n : CtlDiff(s.ctls[i], m.ctls[i], i) # ""} ELSE {}
      \* controllers a hand-written class adds beyond the specification come after the specified
      \* ones and are not attached on a fresh instance, so they never shift a stored value
      g5 == g3 => \A i \in (n+1)..Len(m.ctls) : ~m.ctls[i].attached
      g6 == Len(m.opts) = Len(s.opts) /\ {m.opts[i].name : i \in 1..Len(m.opts)} = {s.opts[i].name : i \in 1..Len(s.opts)}
      so(nm) == s.opts[CHOOSE i \in 1..Len(s.opts) : s.opts[i].name = nm]
      bado == IF g6 THEN {i \in 1..Len(m.opts) : OptDiff(so(m.opts[i].name), m.opts[i]) # ""} ELSE {}
      g8 == s.opts = <<>> \/ m.options_chnm = s.options_chnm
      ci == IF badc = {} THEN 0 ELSE CHOOSE i \in badc : \A j \in badc : i <= j
      oi == IF bado = {} THEN 0 ELSE CHOOSE i \in bado : TRUE
  IN /\ Check(g0, "mtype/constructible", t, m.mtype)
     /\ Check(g1, "group", s.group, m.group)
     /\ Check(g2, "default-flags", s.flags, m.flags)
     /\ Check(g3, "controller-count", n, Len(m.ctls))
     /\ Check(badc = {}, "controller:" \o (IF ci = 0 THEN "" ELSE s.ctls[ci].name \o ":" \o CtlDiff(s.ctls[ci], m.ctls[ci], ci)),
              IF ci = 0 THEN <<>> ELSE <<s.ctls[ci]>>, IF ci = 0 THEN <<>> ELSE <<m.ctls[ci]>>)
     /\ Check(g5, "extra-controller-attached", "unattached", [i \in 1..Len(m.ctls) |-> m.ctls[i].name])
     /\ Check(g6, "option-list", [i \in 1..Len(s.opts) |-> s.opts[i].name], [i \in 1..Len(m.opts) |-> m.opts[i].name])
     /\ Check(bado = {}, "option:" \o (IF oi = 0 THEN "" ELSE m.opts[oi].name \o ":" \o OptDiff(so(m.opts[oi].name), m.opts[oi])),
              IF oi = 0 THEN <<>> ELSE <<so(m.opts[oi].name)>>, IF oi = 0 THEN <<>> ELSE <<m.opts[oi]>>)
     /\ Check(g8, "options-chnm", s.options_chnm, m.options_chnm)
     /\ ok' = (ok /\ g0 /\ g1 /\ g2 /\ g3 /\ badc = {} /\ g5 /\ g6 /\ bado = {} /\ g8)
     /\ registered' = registered \cup {t}

Step == /\ l <= Len(Traces[tid].events) /\ Register(Ev) /\ l' = l + 1 /\ UNCHANGED tid
Done == /\ l = Len(Traces[tid].events) + 1
        /\ LET complete == registered = SpecTypes IN
           /\ IF complete THEN TRUE ELSE PrintT(ToJson([v |-> "MISMATCH", id |-> Traces[tid].id, l |-> l, op |-> "end",
                   clause |-> "registry-incomplete", exp |-> SetToSeq(SpecTypes \ registered), got |-> SetToSeq(registered \ SpecTypes)]))
           /\ PrintT(ToJson([v |-> IF ok /\ complete THEN "ACCEPT" ELSE "REJECT", id |-> Traces[tid].id, n |-> l - 1]))
        /\ l' = l + 1 /\ UNCHANGED <<registered, tid, ok>>
TNext == Step \/ Done
SpecSaneInv == SpecSane
=============================================================================

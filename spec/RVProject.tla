------------------------------ MODULE RVProject ------------------------------
(***************************************************************************)
(* Ownership and indexing of modules and patterns (property C14).          *)
(*                                                                         *)
(* Abstract state (a record, so that the operators serve both the model    *)
(* and trace validation):                                                  *)
(*   slots[P]   module list of project P: module ids, 0 = empty position   *)
(*   index[m]   Module.index  (-1 = None)                                  *)
(*   parent[m]  owning project of module m (0 = none)                      *)
(*   pats[P]    pattern list of project P: pattern ids, 0 = empty position *)
(*   pproj[q]   Pattern.project (0 = none)                                 *)
(*   nmod[q]    the module number stored in one note of pattern q          *)
(* Projects are 1 and 2; module ids 1 and 2 are their Output modules.      *)
(***************************************************************************)
EXTENDS Integers, Sequences, FiniteSets, SequencesExt, TLC, RVSeq

Res(o, ps, r) == [outcome |-> o, posts |-> ps, ret |-> r]

InitState(nm, np) ==
  [slots |-> << <<1>>, <<2>> >>,
   index |-> [m \in 1..nm |-> IF m <= 2 THEN 0 ELSE -1],
   parent |-> [m \in 1..nm |-> IF m <= 2 THEN m ELSE 0],
   output |-> <<1, 2>>,                       \* Project.output: the module object the attribute refers to
   pats |-> << <<>>, <<>> >>,
   pproj |-> [q \in 1..np |-> 0],
   nmod |-> [q \in 1..np |-> 0]]

(* Project.attach_module(module) *)
Attach(s, P, m) ==
  IF s.parent[m] # 0 /\ s.parent[m] # P THEN Res("ModuleOwnershipError", {s}, m)
  ELSE IF Has(s.slots[P], m) THEN Res("ok", {s}, m)                       \* attaching twice: no-op
  ELSE LET pos == IF Has(s.slots[P], 0) THEN IndexOf(s.slots[P], 0)        \* lowest empty position
                  ELSE Len(s.slots[P]) + 1                                 \* else the end
           sl  == IF pos <= Len(s.slots[P]) THEN [s.slots[P] EXCEPT ![pos] = m] ELSE Append(s.slots[P], m)
       IN Res("ok", {[s EXCEPT !.slots[P] = sl, !.index[m] = pos - 1, !.parent[m] = P]}, m)

(* Project.attach_module(module, loading=True) - the reader's way: always the end, earlier empty positions stay empty *)
(* (the only public way to an INTERIOR gap; files written by SunVox have them after modules were deleted)            *)
AttachEnd(s, P, m) ==
  IF s.parent[m] # 0 /\ s.parent[m] # P THEN Res("ModuleOwnershipError", {s}, m)
  ELSE IF Has(s.slots[P], m) THEN Res("ok", {s}, m)
  ELSE Res("ok", {[s EXCEPT !.slots[P] = Append(@, m), !.index[m] = Len(s.slots[P]), !.parent[m] = P]}, m)

(* Project.attach_module(None): an explicit empty position *)
AttachNone(s, P) == Res("ok", {[s EXCEPT !.slots[P] = Append(@, 0)]}, 0)

(* Project.attach_pattern(pattern); q = 0 is None (an empty pattern slot) *)
AttachPattern(s, P, q) ==
  IF q # 0 /\ s.pproj[q] # 0 THEN Res("PatternOwnershipError", {s}, -1)
  ELSE LET t == [s EXCEPT !.pats[P] = Append(@, q)] IN
       Res("ok", {IF q = 0 THEN t ELSE [t EXCEPT !.pproj[q] = P]}, Len(s.pats[P]))

(* project += item / list of items.  An item is [k |-> "m"|"q", id |-> n].  *)
(* The first refused item raises; items before it stay attached.            *)
RECURSIVE IAdd(_, _, _)
IAdd(s, P, items) ==
  IF items = <<>> THEN Res("ok", {s}, 0) ELSE
  LET it == Head(items)
      r  == IF it.k = "m" THEN Attach(s, P, it.id) ELSE AttachPattern(s, P, it.id) IN
  IF r.outcome # "ok" THEN Res(r.outcome, r.posts, 0)
  ELSE IAdd(CHOOSE p \in r.posts : TRUE, P, Tail(items))

DropTrailing0(q) == IF \E i \in 1..Len(q) : q[i] # 0
                    THEN SubSeq(q, 1, CHOOSE i \in 1..Len(q) : q[i] # 0 /\ \A j \in (i+1)..Len(q) : q[j] = 0)
                    ELSE <<>>
(* save + load of project P: positions kept, trailing empty positions dropped; *)
(* ids keep denoting the objects now found at the same positions              *)
SaveLoad(s, P) == Res("ok", {[s EXCEPT !.slots[P] = DropTrailing0(@)]}, 0)

(* a project read from a file that has NO module at position 0 (project.modules[0] = None, write, read): the positions are   *)
(* kept, position 0 is empty; the Output object the loaded project carries as `output` keeps naming the project and index 0 *)
LoadNoOutput(s, P) ==
  Res("ok", {[s EXCEPT !.slots[P] = DropTrailing0(IF Len(@) >= 1 THEN [@ EXCEPT ![1] = 0] ELSE @)]}, 0)

(* project.modules[i] = None for the position of module m (a user clearing a position by hand): the position is empty, the module *)
(* object keeps naming the project and its old index until it is attached again (Attach then treats it like any module of P that *)
(* is not in the list: lowest empty position, else the end)                                                                     *)
RemoveMod(s, P, m) ==
  IF Has(s.slots[P], m) THEN Res("ok", {[s EXCEPT !.slots[P] = [@ EXCEPT ![IndexOf(s.slots[P], m)] = 0]]}, 0) ELSE Res("ok", {s}, 0)
Stale(s) == {m \in DOMAIN s.parent : m > 2 /\ s.parent[m] # 0 /\ ~Has(s.slots[s.parent[m]], m)}

(* note.mod = m *)
SetNoteMod(s, q, m) ==
  IF s.parent[m] = 0 THEN Res("ModuleOwnershipError", {s}, 0)
  ELSE Res("ok", {[s EXCEPT !.nmod[q] = s.index[m] + 1]}, 0)

(* note.module = n: the stored number itself (16 bits, any value; the number survives save + load as it is) *)
SetNoteNum(s, q, n) == Res("ok", {[s EXCEPT !.nmod[q] = n]}, 0)

(* note.mod : the module at position number-1 of the pattern's project, or none. *)
(* rets: the set of allowed results; beyond the list the property allows none     *)
GetNoteMod(s, q) ==
  IF s.pproj[q] = 0 THEN Res("PatternOwnershipError", {s}, {})
  ELSE LET sl == s.slots[s.pproj[q]]  n == s.nmod[q] IN
       Res("ok", {s}, {IF n = 0 \/ n > Len(sl) THEN 0 ELSE sl[n]})

(* ---------------------------------------------------------------- invariants *)
Coherent(s) ==
  /\ \A P \in 1..2 : \A i \in 1..Len(s.slots[P]) :
        LET m == s.slots[P][i] IN m # 0 => s.index[m] = i - 1 /\ s.parent[m] = P
  /\ \A P \in 1..2 : Len(s.slots[P]) >= 1 /\ s.slots[P][1] = P            \* position 0 holds the output
  /\ \A P \in 1..2 : s.output[P] = s.slots[P][1]                          \* and Project.output is that module
  /\ \A m \in DOMAIN s.parent : s.parent[m] # 0 => Has(s.slots[s.parent[m]], m)
  /\ \A P \in 1..2 : \A i, j \in 1..Len(s.slots[P]) : i # j /\ s.slots[P][i] # 0 => s.slots[P][i] # s.slots[P][j]
  /\ \A q \in DOMAIN s.pproj : s.pproj[q] # 0 <=> \E P \in 1..2 : Has(s.pats[P], q)
  /\ \A q \in DOMAIN s.pproj : s.pproj[q] # 0 => Has(s.pats[s.pproj[q]], q)
(* coherence of a state in which a project may have been loaded WITHOUT its output (position 0 empty, see LoadNoOutput): *)
(* the clauses about position 0 and about the output object's slot are waived for such a project, all others hold        *)
Headless(s, P) == Len(s.slots[P]) = 0 \/ s.slots[P][1] = 0 \/ s.slots[P][1] # P
CoherentH(s) ==
  /\ \A P \in 1..2 : \A i \in 1..Len(s.slots[P]) :
        LET m == s.slots[P][i] IN m # 0 => s.index[m] = i - 1 /\ s.parent[m] = P
  /\ \A P \in 1..2 : ~Headless(s, P) => (s.slots[P][1] = P /\ s.output[P] = s.slots[P][1])
  /\ \A m \in DOMAIN s.parent : s.parent[m] # 0 /\ ~(m <= 2 /\ Headless(s, m)) /\ m \notin Stale(s) => Has(s.slots[s.parent[m]], m)
  /\ \A P \in 1..2 : \A i, j \in 1..Len(s.slots[P]) : i # j /\ s.slots[P][i] # 0 => s.slots[P][i] # s.slots[P][j]
  /\ \A q \in DOMAIN s.pproj : s.pproj[q] # 0 <=> \E P \in 1..2 : Has(s.pats[P], q)
  /\ \A q \in DOMAIN s.pproj : s.pproj[q] # 0 => Has(s.pats[s.pproj[q]], q)
WhyIncoherent(s) ==
  IF ~(\A P \in 1..2 : \A i \in 1..Len(s.slots[P]) :
        LET m == s.slots[P][i] IN m # 0 => s.index[m] = i - 1 /\ s.parent[m] = P) THEN "index-or-parent"
  ELSE IF ~(\A P \in 1..2 : Len(s.slots[P]) >= 1 /\ s.slots[P][1] = P) THEN "output-not-at-0"
  ELSE IF ~(\A P \in 1..2 : s.output[P] = s.slots[P][1]) THEN "output-attribute-not-module-0"
  ELSE IF ~(\A m \in DOMAIN s.parent : s.parent[m] # 0 => Has(s.slots[s.parent[m]], m)) THEN "parent-without-slot"
  ELSE IF ~(\A P \in 1..2 : \A i, j \in 1..Len(s.slots[P]) : i # j /\ s.slots[P][i] # 0 => s.slots[P][i] # s.slots[P][j]) THEN "module-twice"
  ELSE IF ~(\A q \in DOMAIN s.pproj : s.pproj[q] # 0 <=> \E P \in 1..2 : Has(s.pats[P], q)) THEN "pattern-owner"
  ELSE "coherent"

(* attaching moves no other module *)
OthersUnmoved(s, t, m) == \A x \in DOMAIN s.index : x # m => s.index[x] = t.index[x] /\ s.parent[x] = t.parent[x]
=============================================================================

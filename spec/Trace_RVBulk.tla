------------------------------ MODULE Trace_RVBulk ------------------------------
(* Trace validation of bulk edits on real Pattern objects (C19).  One event per  *)
(* model action: begin, cell (the callable was invoked / the generator yielded;   *)
(* it logs what it SEES in the pattern at that moment), fail, commit.             *)
EXTENDS RVBulk, Json, IOUtils, TLCExt
Traces == JsonDeserialize(IOEnv.RV_TRACE_FILE)
VARIABLES tid, l, ok
TInit == /\ tid \in 1..Len(Traces) /\ l = 1 /\ ok = TRUE
         /\ cells = Traces[tid].cells /\ scratch = <<>> /\ pc = "idle"
         /\ owner = [k \in 1..Len(Traces[tid].cells) |-> TRUE]
Ev == Traces[tid].events[l]
Say(clause, exp, got) ==
  PrintT(ToJson([v |-> "MISMATCH", id |-> Traces[tid].id, l |-> l, op |-> Ev.op, clause |-> clause, exp |-> exp, got |-> got]))
Check(good, clause, exp, got) == IF good THEN TRUE ELSE Say(clause, exp, got)

StepEv(e) ==
  CASE e.op = "begin" -> Begin /\ UNCHANGED ok
    [] e.op = "cell" ->        \* e.k: 1-based row-major position; e.note: supplied note; e.seen: pattern contents observed
       (IF pc # "busy" \/ e.k \notin 1..Len(cells) THEN Say("cell-outside-edit", "", e.k) /\ ok' = FALSE /\ UNCHANGED vars
        ELSE LET g == ("blind" \in DOMAIN e /\ e.blind) \/ e.seen = cells IN     \* blind: the callable did not look at the pattern
             /\ Check(g, "contents-visible-during-edit", cells, e.seen)
             /\ Cell(e.k, e.note) /\ ok' = (ok /\ g))
    [] e.op = "fail" ->        \* the callable raised: contents exactly as before, the exception propagates
       (LET g1 == e.post = cells   g2 == e.outcome = "callable-exception" IN
        /\ Check(g1, "failed-edit-changed-contents", cells, e.post)
        /\ Check(g2, "failed-edit-outcome", "callable-exception", e.outcome)
        \* Fail, continuing from the implementation's logged contents so that later edits are still examined
        /\ cells' = e.post /\ pc' = "idle" /\ scratch' = <<>> /\ UNCHANGED owner
        /\ ok' = (ok /\ g1 /\ g2))
    [] e.op = "commit" ->      \* the edit completed
       (IF pc # "busy" THEN Say("commit-outside-edit", "", "") /\ ok' = FALSE /\ UNCHANGED vars
        ELSE LET g1 == e.post = scratch
                 g2 == \A k \in 1..Len(e.owned) : e.owned[k]
                 g3 == \A k \in 1..Len(e.accessors) : e.accessors[k]
                 g4 == e.outcome = "ok" /\ e.returns_self IN
             /\ Check(g1, "installed-contents", scratch, e.post)
             /\ Check(g2, "note-not-owned-by-pattern", "all owned", e.owned)
             /\ Check(g3, "project-aware-accessors", "all work", e.accessors)
             /\ Check(g4, "commit-outcome", "ok", e.outcome)
             /\ cells' = e.post /\ owner' = [k \in 1..Len(cells) |-> TRUE] /\ pc' = "idle" /\ scratch' = <<>>
             /\ ok' = (ok /\ g1 /\ g2 /\ g3 /\ g4))
    [] e.op = "bystander" ->   \* another Pattern object (the one the edited pattern was shallow-copied from) looked at after an edit
       (LET g1 == e.after = e.before   g2 == \A k \in 1..Len(e.owned) : e.owned[k] IN
        /\ Check(g1, "bulk-edit-changed-another-pattern", e.before, e.after)
        /\ Check(g2, "bulk-edit-took-another-pattern's-notes", "all owned", e.owned)
        /\ UNCHANGED vars /\ ok' = (ok /\ g1 /\ g2))
    [] OTHER -> Say("unknown-op", "", e.op) /\ ok' = FALSE /\ UNCHANGED vars

Step == /\ l <= Len(Traces[tid].events) /\ StepEv(Ev) /\ l' = l + 1 /\ UNCHANGED tid
Done == /\ l = Len(Traces[tid].events) + 1
        /\ PrintT(ToJson([v |-> IF ok THEN "ACCEPT" ELSE "REJECT", id |-> Traces[tid].id, n |-> l - 1]))
        /\ l' = l + 1 /\ UNCHANGED <<vars, tid, ok>>
TNext == Step \/ Done
=============================================================================

-------------------------------- MODULE RVBulk --------------------------------
(***************************************************************************)
(* Bulk pattern edits (property C19): Pattern.set_via_fn / set_via_gen.    *)
(*   cells    the pattern's installed note cells, row-major                *)
(*   scratch  the working copy the edit writes into                        *)
(*   owner    owner[k] = TRUE iff cell k's note belongs to this pattern     *)
(*   pc       "idle" | "busy"                                              *)
(* Begin copies cells to scratch; Cell(k, n) writes a supplied note into   *)
(* scratch only; Fail discards scratch; Commit installs scratch and makes  *)
(* every installed note belong to the pattern.                             *)
(***************************************************************************)
EXTENDS Integers, Sequences, FiniteSets, TLC
VARIABLES cells, scratch, owner, pc
vars == <<cells, scratch, owner, pc>>

Begin      == /\ pc = "idle" /\ scratch' = cells /\ pc' = "busy" /\ UNCHANGED <<cells, owner>>
Cell(k, n) == /\ pc = "busy" /\ k \in 1..Len(cells)
              /\ scratch' = [scratch EXCEPT ![k] = n] /\ UNCHANGED <<cells, owner, pc>>
Fail       == /\ pc = "busy" /\ pc' = "idle" /\ scratch' = <<>> /\ UNCHANGED <<cells, owner>>
Commit     == /\ pc = "busy" /\ cells' = scratch /\ owner' = [k \in 1..Len(cells) |-> TRUE]
              /\ pc' = "idle" /\ scratch' = <<>>

(* C19 as an action property: contents change only by a commit that installs the scratch copy *)
AllOrNothing == [][cells' # cells => (pc = "busy" /\ pc' = "idle" /\ cells' = scratch)]_vars
OwnedWhenIdle == pc = "idle" => \A k \in 1..Len(owner) : owner[k]
=============================================================================

----------------------------- MODULE Trace_RVFormat -----------------------------
(* Reference evaluation (mode C): spec operators evaluated on concrete objects and  *)
(* files recorded from the real library; comparison inside TLC.                     *)
EXTENDS RVFormat, TLCExt
Traces == JsonDeserialize(IOEnv.RV_TRACE_FILE)
VARIABLES tid, l, ok, base      \* base: the object an "edit" event starts from (set by a "base" event)
TInit == tid \in 1..Len(Traces) /\ l = 1 /\ ok = TRUE /\ base = [kind |-> "none"]
Ev == Traces[tid].events[l]
Say(clause, exp, got) ==
  PrintT(ToJson([v |-> "MISMATCH", id |-> Traces[tid].id, l |-> l, op |-> Ev.op, clause |-> clause, exp |-> exp, got |-> got]))
Check(good, clause, exp, got) == IF good THEN TRUE ELSE Say(clause, exp, got)
(* the one deviation recorded as a known finding gets its own, exact clause: the sampler header is written *)
(* with a 119-byte note map instead of the 128 bytes of the struct, everything else in place             *)
ShortNoteMap(e, g) == /\ Len(e.data) = 400 /\ Len(g.data) = 391
                      /\ g.data = SubSeq(e.data, 1, 379) \o SubSeq(e.data, 389, 400)
RECURSIVE SayAll(_, _, _, _)
SayAll(prefix, ds, exp, got) == IF ds = <<>> THEN TRUE ELSE
   /\ LET e == At(exp, Head(ds))  g == At(got, Head(ds))  lab == Ctx(exp, Head(ds)) IN
      IF e.id = "CHDT" /\ g.id = "CHDT" /\ ShortNoteMap(e, g)
      THEN Say(prefix \o "sampler-header-119-byte-note-map", Len(e.data), Len(g.data))
      ELSE Say(prefix \o lab, e, g)
   /\ SayAll(prefix, Tail(ds), exp, got)

DiffSay(clause, d) == IF d = <<>> THEN TRUE ELSE Say(clause \o ":" \o d[1], d[2], d[3])
RECURSIVE SetPath(_, _, _)
SetPath(obj, path, v) == IF path = <<>> THEN v ELSE [obj EXCEPT ![Head(path)] = SetPath(@, Tail(path), v)]

WriteOK(obj, chunks) ==        \* C03: the bytes written are exactly the documented encoding of the public state
  IF HasLegacy(obj) THEN TRUE ELSE Diffs(Write(obj), chunks) = <<>>
WriteSay(obj, chunks) ==
  IF HasLegacy(obj) THEN TRUE ELSE
  LET exp == Write(obj)  ds == Diffs(exp, chunks) IN SayAll("write:", IF Len(ds) > 6 THEN SubSeq(ds, 1, 6) ELSE ds, exp, chunks)

StructSay(chunks) == LET b == StructBad(chunks) IN IF b = {} THEN TRUE ELSE Say("structure:" \o (CHOOSE x \in b : TRUE), {}, b)
StepEv(e) ==
  CASE e.op = "save" -> /\ WriteSay(e.obj, e.chunks) /\ StructSay(e.chunks)
                        /\ ok' = (ok /\ WriteOK(e.obj, e.chunks) /\ StructBad(e.chunks) = {})
    [] e.op = "emptysynth" ->    \* C02: a synth without a module refuses to serialize, nothing is written
       (LET g == e.outcome = "EmptySynthError" /\ e.written = 0 IN
        Check(g, "empty-synth-not-refused", "EmptySynthError", <<e.outcome, e.written>>) /\ ok' = (ok /\ g))
    [] e.op = "encode" ->        \* the spec as reference encoder: emit Write(obj) for the harness to turn into bytes
       PrintT(ToJson([v |-> "ENCODED", id |-> Traces[tid].id, l |-> l, chunks |-> Write(e.obj)])) /\ UNCHANGED ok
    [] e.op = "load" ->          \* C04: the loaded object is what the chunks denote
       (IF e.outcome # "ok" THEN Say("load-raised", "ok", e.outcome) /\ ok' = FALSE
        ELSE LET d == DiffObj(Read(e.chunks), e.obj) IN DiffSay("read", d) /\ ok' = (ok /\ d = <<>>))
    [] e.op = "load_same" ->     \* C04: chunks with unknown ids are skipped without changing anything else
       (IF e.outcome # "ok" THEN Say("load-raised-on-unknown-chunk", "ok", e.outcome) /\ ok' = FALSE
        ELSE LET r == Read(e.chunks)
                 d0 == DiffObj(Read(e.same_as), r)        \* design level: the spec's own reader skips it
                 d == DiffObj(r, e.obj) IN
             /\ DiffSay("spec-reader-not-invariant", d0) /\ DiffSay("read-with-unknown-chunk", d)
             /\ ok' = (ok /\ d0 = <<>> /\ d = <<>>))
    [] e.op = "roundtrip" ->     \* C01/C02/C15/C16: object -> bytes -> object; e.orig, e.chunks, e.back
       (IF e.outcome # "ok" THEN Say("written-file-not-loadable", "ok", e.outcome) /\ ok' = FALSE
        ELSE LET d1 == DiffObj(Norm(e.orig), Norm(e.back))
                 d2 == DiffObj(Read(e.chunks), e.back)
                 w == ~e.w \/ (WriteOK(e.orig, e.chunks) /\ StructBad(e.chunks) = {}) IN
             /\ DiffSay("roundtrip", d1) /\ DiffSay("read", d2)
             /\ (IF e.w THEN WriteSay(e.orig, e.chunks) /\ StructSay(e.chunks) ELSE TRUE)
             /\ ok' = (ok /\ d1 = <<>> /\ d2 = <<>> /\ w))
    [] e.op = "resave" ->        \* C05: X -> load -> Y -> load -> Y2, Y3 ... ; e.first = Y, e.again = <<Y2, Y3, ...>>,
                                 \* e.obj1 / e.obj2 the objects loaded from X and from Y, e.pure: snapshots before/after saving equal
       (LET badi == {i \in 1..Len(e.again) : e.again[i] # e.first}
            d == DiffObj(BlankVers(Norm(e.obj1)), BlankVers(Norm(e.obj2)))
            w == ~e.w \/ WriteOK(e.obj2, e.first) IN
        /\ Check(badi = {}, "resave-drift", "identical bytes", IF badi = {} THEN <<>> ELSE
                  LET i == CHOOSE i \in badi : TRUE  p == FirstDiff(e.first, e.again[i]) IN <<i, Ctx(e.first, p), At(e.first, p), At(e.again[i], p)>>)
        /\ DiffSay("reload-differs", d)
        /\ Check(e.pure, "saving-changed-the-object", "unchanged", "changed")
        /\ (IF e.w THEN WriteSay(e.obj2, e.first) ELSE TRUE)
        /\ ok' = (ok /\ badi = {} /\ d = <<>> /\ e.pure /\ w))
    [] e.op = "base" -> UNCHANGED ok
    [] e.op = "save_failed" ->   \* C05: a file the library loaded could not be saved again
       Say("loaded-file-cannot-be-saved", "ok", e.outcome) /\ ok' = FALSE
    [] e.op = "edit" ->          \* C06: load, change one attribute, save, load: the change and only the change
       (IF e.outcome # "ok" THEN Say("edited-file-not-loadable", "ok", e.outcome) /\ ok' = FALSE
        ELSE LET exp == BlankVers(Norm(SetPath(base, e.path, e.value)))
                 d == DiffObj(exp, BlankVers(Norm(e.after)))
                 \* the bytes saved after the edit are the encoding of the CURRENT state (nothing replayed, nothing omitted)
                 w == ~e.w \/ WriteOK(e.edited, e.chunks) IN
             /\ DiffSay("edit:" \o e.kind, d)
             /\ (IF e.w THEN WriteSay(e.edited, e.chunks) ELSE TRUE)
             /\ ok' = (ok /\ d = <<>> /\ w))
    [] e.op = "alias" ->         \* C06/C09: an edit through a second public name of an attribute (a MetaModule's u_<label> alias of
                                 \* user_defined_<n>) is the edit through its first name: same saved state, and not the state before
       (IF e.outcome # "ok" THEN Say("alias-edit-failed", "ok", e.outcome) /\ ok' = FALSE
        ELSE LET d == DiffObj(BlankVers(Norm(e.named)), BlankVers(Norm(e.after)))
                 same == DiffObj(BlankVers(Norm(base)), BlankVers(Norm(e.named))) = <<>> IN
             /\ DiffSay("alias-edit-differs-from-named-edit:" \o e.kind, d)
             /\ (IF same THEN Say("alias-probe-vacuous", "a changed state", "unchanged") ELSE TRUE)
             /\ ok' = (ok /\ d = <<>> /\ ~same))
    [] OTHER -> Say("unknown-op", "", e.op) /\ ok' = FALSE
(* a loaded value wider than the 32-bit field it was read from (reported by the projection, TLC integers being 32-bit) *)
Overflow(e) == IF "overflow" \in DOMAIN e THEN e.overflow ELSE <<>>
Step == /\ l <= Len(Traces[tid].events)
        /\ (IF Overflow(Ev) = <<>> THEN StepEv(Ev)
            ELSE Say("loaded-value-outside-its-32-bit-field", <<>>, Overflow(Ev)) /\ ok' = FALSE)
        /\ l' = l + 1 /\ UNCHANGED tid
        /\ base' = IF Ev.op = "base" THEN Ev.obj ELSE base
Done == /\ l = Len(Traces[tid].events) + 1
        /\ PrintT(ToJson([v |-> IF ok THEN "ACCEPT" ELSE "REJECT", id |-> Traces[tid].id, n |-> l - 1]))
        /\ l' = l + 1 /\ UNCHANGED <<tid, ok, base>>
TNext == Step \/ Done
=============================================================================

---------------------------- MODULE Trace_RVMultiCtl ----------------------------
EXTENDS RVMultiCtl, Json, IOUtils, TLCExt
Traces == JsonDeserialize(IOEnv.RV_TRACE_FILE)
VARIABLES tid, l, ok
TInit == tid \in 1..Len(Traces) /\ l = 1 /\ ok = TRUE
Ev == Traces[tid].events[l]
Say(clause, exp, got) ==
  PrintT(ToJson([v |-> "MISMATCH", id |-> Traces[tid].id, l |-> l, op |-> Ev.op, clause |-> clause, exp |-> exp, got |-> got]))
Check(good, clause, exp, got) == IF good THEN TRUE ELSE Say(clause, exp, got)

Rew(e) == IF "rew" \in DOMAIN e THEN e.rew ELSE <<>>
StepEv(e) ==
  CASE e.op = "macro" ->
    (LET exp == MacroOutcome(e.targets)
         g1 == e.outcome = exp
         g2 == exp = "ok" => /\ e.created /\ e.attached
                             /\ e.out_links = [i \in 1..Len(e.targets) |-> e.targets[i].mod]
                             /\ Len(e.mapctl) >= Len(e.targets)
                             /\ \A i \in 1..Len(e.targets) : e.mapctl[i] = e.targets[i].num
                             /\ e.links_consistent
         g3 == exp # "ok" => ~e.created /\ e.nmods_after = e.nmods_before
         \* macro(..., initial=v) feeds v once: the first (ranged) target then holds what feeding v through the finished
         \* MultiCtl delivers - e.initial = << <<v, value found after macro(), value after feeding v again, 0>> >> or << >>
         g4 == \A k \in 1..Len(e.initial) : e.initial[k][2] = e.initial[k][3] IN
     /\ Check(g1, "macro-outcome", exp, e.outcome)
     /\ Check(g2, "macro-created-and-linked", e.targets, <<e.created, e.attached, e.out_links, e.mapctl, e.links_consistent>>)
     /\ Check(g3, "macro-refusal-creates-nothing", e.nmods_before, e.nmods_after)
     /\ Check(exp # "ok" \/ g4, "macro-initial-not-delivered", "what feeding the same input delivers", e.initial)
     /\ ok' = (ok /\ g1 /\ g2 /\ g3 /\ (exp # "ok" \/ g4)))
  [] e.op = "feed" ->
    (IF e.unmapped THEN         \* the mapping names no controller: the target stays untouched
        LET g == e.outcome = "ok" /\ e.rle = <<<<e.initial, 32769>>>> /\ e.others_unchanged IN
        Check(g, "unmapped-link-touched-target", <<e.initial, 32769>>, <<e.outcome, e.rle>>) /\ ok' = (ok /\ g)
     ELSE IF e.wide THEN         \* a window wider than a compact target's span: a delivery may be refused, never stored out of range
        LET g3 == InRangeRle(e.rle, e.lo, e.hi)   g5 == e.others_unchanged IN
        /\ Check(g3, "delivered-out-of-range", <<e.lo, e.hi>>, e.rle)
        /\ Check(g5, "other-controllers-changed", "unchanged", "changed")
        /\ ok' = (ok /\ g3 /\ g5)
     ELSE
        LET g1 == e.outcome = "ok"
            g2 == Total(e.rle) = 32769
            g3 == InRangeRle(e.rle, e.lo, e.hi)
            g4 == (e.wmin <= e.wmax => MonotoneRle(e.rle, FALSE)) /\ (e.wmin >= e.wmax => MonotoneRle(e.rle, TRUE))
            g5 == e.others_unchanged
            \* the plain case - unity gain, no quantization, linear curve, full window: the extreme inputs deliver the ends of
            \* the target's range (a mapped link does drive its target; the same fact RVSystem!SysFeed composes)
            plain == e.out_offset = 0 /\ e.gain = 256 /\ e.quant = 32768 /\ e.curve = "default" /\ {e.wmin, e.wmax} = {0, 32768} /\ e.kind = "range"
            g6 == plain /\ g1 /\ g2 => LET a == e.rle[1][1]  b == e.rle[Len(e.rle)][1] IN
                     IF e.wmin = 0 THEN a = e.lo /\ b = e.hi ELSE a = e.hi /\ b = e.lo
            \* what reaches the target is a function of the input: the same input fed again after the target was written by hand
            \* (or by another MultiCtl) delivers the same value again - entries <<input, delivered, delivered after the re-feed>>
            g7 == \A i \in 1..Len(Rew(e)) : Rew(e)[i][2] = Rew(e)[i][3] IN
        /\ Check(g6, "plain-feed-misses-range-ends", <<e.lo, e.hi>>, <<e.rle[1], e.rle[Len(e.rle)]>>)
        /\ Check(g7, "same-input-fed-again-after-a-hand-write-not-delivered", "d2 = d1 in <<input, d1, d2>>", Rew(e))
        /\ Check(g1, "delivery-raised", "ok", <<e.outcome, e.bad_input>>)
        /\ Check(g1 => g2, "all-inputs-delivered", 32769, Total(e.rle))
        /\ Check(g3, "delivered-out-of-range", <<e.lo, e.hi>>, e.rle)
        /\ Check(g4, "not-monotone", <<e.wmin, e.wmax>>, e.rle)
        /\ Check(g5, "other-controllers-changed", "unchanged", "changed")
        /\ ok' = (ok /\ g1 /\ g2 /\ g3 /\ g4 /\ g5 /\ g6 /\ g7))
  [] OTHER -> Say("unknown-op", "", e.op) /\ ok' = FALSE

Step == /\ l <= Len(Traces[tid].events) /\ StepEv(Ev) /\ l' = l + 1 /\ UNCHANGED tid
Done == /\ l = Len(Traces[tid].events) + 1
        /\ PrintT(ToJson([v |-> IF ok THEN "ACCEPT" ELSE "REJECT", id |-> Traces[tid].id, n |-> l - 1]))
        /\ l' = l + 1 /\ UNCHANGED <<tid, ok>>
TNext == Step \/ Done
=============================================================================

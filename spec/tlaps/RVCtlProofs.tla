----------------------------- MODULE RVCtlProofs -----------------------------
(* Unbounded statements about the stored controller encoding (C10), proved with  *)
(* TLAPS.  Supplementary to the complete enumeration done by TLC and the trace    *)
(* validation; not load-bearing (see DESIGN.md 10.1).  ToRawR / FromRawR restate  *)
(* RVCtl!ToRaw / FromRaw for the offset kinds over an arbitrary minimum.          *)
EXTENDS Integers, TLAPS
ToRawR(lo, v)   == IF lo < 0 THEN v - lo ELSE v
FromRawR(lo, r) == IF lo < 0 THEN r + lo ELSE r

THEOREM Bijection == \A lo, v \in Int : FromRawR(lo, ToRawR(lo, v)) = v
  BY DEF ToRawR, FromRawR
THEOREM Inverse == \A lo, r \in Int : ToRawR(lo, FromRawR(lo, r)) = r
  BY DEF ToRawR, FromRawR
THEOREM NonNegative == \A lo, v \in Int : (lo < 0 /\ v >= lo) => ToRawR(lo, v) >= 0
  BY DEF ToRawR
THEOREM Injective == \A lo, v, w \in Int : ToRawR(lo, v) = ToRawR(lo, w) => v = w
  BY DEF ToRawR
THEOREM Monotone == \A lo, v, w \in Int : v <= w => ToRawR(lo, v) <= ToRawR(lo, w)
  BY DEF ToRawR
=============================================================================

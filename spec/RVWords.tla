-------------------------------- MODULE RVWords --------------------------------
(***************************************************************************)
(* Packed words and note cells (property C12).                             *)
(*  - a note cell is 8 bytes: note, velocity, module (u16 LE), controller/ *)
(*    effect word (u16 LE), XX/YY value word (u16 LE)                      *)
(*  - a pattern's data is its cells in row-major order                     *)
(*  - sub-fields of packed words: bit position, width, and whether a value *)
(*    that does not fit is masked (enumerations, byte halves) or clamped    *)
(*    (sizes, transparencies)                                              *)
(***************************************************************************)
EXTENDS Integers, Sequences, FiniteSets, SequencesExt, TLC

Pow2(n) == 2^n
Field(s, n, lim) == [start |-> s, len |-> n, lim |-> lim]
Fields ==
  [note_controller |-> Field(8, 8, "mask"),  note_effect |-> Field(0, 8, "mask"),
   note_val_xx     |-> Field(8, 8, "mask"),  note_val_yy |-> Field(0, 8, "mask"),
   vis_level_mode  |-> Field(0, 5, "mask"),  vis_orientation |-> Field(5, 1, "mask"),
   vis_oscilloscope_mode |-> Field(8, 5, "mask"),
   vis_oscilloscope_size |-> Field(16, 8, "clamp"),
   vis_bg_transparency   |-> Field(24, 2, "clamp"),
   vis_shadow_opacity    |-> Field(26, 2, "clamp"),
   smii_always |-> Field(0, 1, "mask"), smii_channel |-> Field(1, 30, "mask"),
   sfgs_midi   |-> Field(0, 3, "mask"), sfgs_other   |-> Field(3, 3, "mask")]
WordOf(f) == CASE f \in {"note_controller", "note_effect"} -> "note_ctl"
               [] f \in {"note_val_xx", "note_val_yy"} -> "note_val"
               [] f \in {"vis_level_mode", "vis_orientation", "vis_oscilloscope_mode", "vis_oscilloscope_size",
                         "vis_bg_transparency", "vis_shadow_opacity"} -> "vis"
               [] f \in {"smii_always", "smii_channel"} -> "smii"
               [] OTHER -> "sfgs"
FieldsOfWord(w) == {f \in DOMAIN Fields : WordOf(f) = w}

Lim(f, v) == LET d == Fields[f] IN
  IF d.lim = "mask" THEN v % Pow2(d.len)
  ELSE IF v < 0 THEN 0 ELSE IF v > Pow2(d.len) - 1 THEN Pow2(d.len) - 1 ELSE v
GetSub(w, f)    == (w \div Pow2(Fields[f].start)) % Pow2(Fields[f].len)
SetSub(w, f, v) == w - GetSub(w, f) * Pow2(Fields[f].start) + Lim(f, v) * Pow2(Fields[f].start)

(* visualization words whose enumerated parts hold defined members *)
VisDefined(w) == /\ GetSub(w, "vis_level_mode") \in 0..4 /\ GetSub(w, "vis_oscilloscope_mode") \in 0..7
                 /\ w >= 0 /\ w < Pow2(28)
                 /\ (w \div Pow2(6)) % 4 = 0 /\ (w \div Pow2(13)) % 8 = 0       \* no stray bits between the fields

(* design-level theorem: a setter sets its field and leaves every other field of the word alone *)
SetterCorrect(w, f, v) ==
  /\ GetSub(SetSub(w, f, v), f) = Lim(f, v)
  /\ \A g \in FieldsOfWord(WordOf(f)) \ {f} : GetSub(SetSub(w, f, v), g) = GetSub(w, g)

(* ---- note cells ---- *)
Enc16(v) == <<v % 256, (v \div 256) % 256>>
Dec16(b) == b[1] + 256 * b[2]
NoteBytes(n) == <<n[1], n[2]>> \o Enc16(n[3]) \o Enc16(n[4]) \o Enc16(n[5])     \* n = <<note, vel, module, ctl, val>>
NoteOfBytes(b) == <<b[1], b[2], Dec16(SubSeq(b, 3, 4)), Dec16(SubSeq(b, 5, 6)), Dec16(SubSeq(b, 7, 8))>>
NoteInDomain(n, cmds) == n[1] \in cmds /\ n[2] \in 0..129 /\ n[3] \in 0..65535 /\ n[4] \in 0..65535 /\ n[5] \in 0..65535
(* pattern image: cells in row-major order *)
Image(cells) == FlattenSeq([i \in 1..Len(cells) |-> NoteBytes(cells[i])])
(* files written before SunVox 1.9.5.0 stored 8-bit module numbers: on load the high byte of the module column is cleared *)
OlderVersion(v, w) == \E i \in 1..4 : v[i] < w[i] /\ \A j \in 1..(i-1) : v[j] = w[j]
ClearModuleHigh(img) == [i \in 1..Len(img) |-> IF i % 8 = 4 THEN 0 ELSE img[i]]
LoadedImage(img, vers) == IF OlderVersion(vers, <<1, 9, 5, 0>>) THEN ClearModuleHigh(img) ELSE img
CellsOf(img) == [i \in 1..(Len(img) \div 8) |-> NoteOfBytes(SubSeq(img, 8 * i - 7, 8 * i))]
=============================================================================

------------------------------ MODULE RVSpecData ------------------------------
(* Module types, controllers and options, extracted at check time from       *)
(* /repo/specs/fileformat.yaml by harness/rvverif/specdata.py (PyYAML only).  *)
EXTENDS Integers, Sequences, FiniteSets, TLC, Json, IOUtils
SpecData == JsonDeserialize(IOEnv.RV_SPECDATA)
SpecTypes == DOMAIN SpecData
Ctls(t) == SpecData[t].ctls
Opts(t) == SpecData[t].opts
RangeKinds == {"range", "compact", "nooffset"}

(* the range of controller c of a module whose unit controller currently holds u *)
DepRange(c, u) == IF \E i \in 1..Len(c.ranges) : c.ranges[i][1] = u
                  THEN LET i == CHOOSE i \in 1..Len(c.ranges) : c.ranges[i][1] = u IN <<c.ranges[i][2], c.ranges[i][3]>>
                  ELSE c.defrange
CMin(c, u) == IF c.kind = "dep" THEN DepRange(c, u)[1] ELSE c.min
CMax(c, u) == IF c.kind = "dep" THEN DepRange(c, u)[2] ELSE c.max
MemberValues(c) == {c.members[i][2] : i \in 1..Len(c.members)}
MemberNames(c)  == {c.members[i][1] : i \in 1..Len(c.members)}
ValueOfName(c, n) == c.members[CHOOSE i \in 1..Len(c.members) : c.members[i][1] = n][2]

(* ---- sanity of the specification data itself (checked as ASSUME-like invariants by MC_RVSpec) *)
OptBits(o) == {<<o.byte, b>> : b \in o.bit..(o.bit + o.size - 1)}
OptionsDisjoint(t) == \A i, j \in 1..Len(Opts(t)) : i # j => OptBits(Opts(t)[i]) \cap OptBits(Opts(t)[j]) = {}
OptionsFit(t) == \A i \in 1..Len(Opts(t)) : LET o == Opts(t)[i] IN o.bit + o.size <= 8 /\ o.byte < 64 /\ o.size >= 1
DefaultsInDomain(t) == \A i \in 1..Len(Ctls(t)) : LET c == Ctls(t)[i] IN
   CASE c.kind \in RangeKinds -> c.min <= c.default /\ c.default <= c.max /\ c.min <= c.max
     [] c.kind = "enum" -> c.default \in MemberValues(c)
     [] c.kind = "bool" -> c.default \in {0, 1}
     [] c.kind = "dep"  -> /\ c.dep \in 1..Len(Ctls(t)) /\ Ctls(t)[c.dep].kind = "enum"
                           /\ {c.ranges[k][1] : k \in 1..Len(c.ranges)} = MemberValues(Ctls(t)[c.dep])
     [] OTHER -> FALSE
SpecSane == \A t \in SpecTypes : OptionsDisjoint(t) /\ OptionsFit(t) /\ DefaultsInDomain(t)
=============================================================================

#!/bin/sh
cd /verif
for d in seeded/*-r3m*/; do
  n=$(basename $d)
  p=$(python3 -c "import json;print(json.load(open('$d/meta.json'))['property'])")
  python3 tools/seed.py run $n $p 2>&1 | grep -E "DETECTED|missed|cannot|does not apply|rejected|VIOLATION|MACH"
done

#!/bin/sh
# runs every seeded change against the check of its own property (quick tier), in scratch worktrees
cd /verif
for d in seeded/*/; do
  n=$(basename $d)
  p=$(python3 -c "import json;print(json.load(open('$d/meta.json'))['property'])")
  python3 tools/seed.py run $n $p 2>&1 | grep -E "DETECTED|missed|cannot|does not apply"
done

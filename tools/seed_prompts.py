#!/usr/bin/env python3
"""Write the prompts for a round of independently seeded changes (development aid).

  seed_prompts.py <round> <root>     e.g.  seed_prompts.py 4 /tmp/wt4

For every property a scratch worktree <root>/<PID> of /repo is expected (created by the caller); the prompt holds ONLY the
property text (from properties.jsonl), the worktree path and short descriptions of the changes of earlier rounds to avoid -
nothing about /verif."""
import glob
import json
import os
import sys

VERIF = os.path.dirname(os.path.dirname(os.path.abspath(__file__)))
HEAD = """You are helping to evaluate a verification framework for the Python library metrasynth/radiant-voices (a pure-Python reader/writer for SunVox .sunvox/.sunsynth files). Your job: craft realistic, subtle BUGS ("seeded changes") in the library that break ONE stated semantic property while the existing test suite still passes.

Your private scratch git worktree of the repository: {wt}  (work ONLY inside this directory; never touch /repo or /verif, do not read anything under /verif).
To run code against your worktree use:  cd {wt} && PYTHONPATH={wt}/src/python /venv/bin/python ...
Existing test suite (must still pass, 170 passed, with your change applied):
  cd {wt} && PYTHONPATH={wt}/src/python /venv/bin/python -m pytest -q -p no:cacheprovider tests
There is no network. Do not install anything.

The property (read it carefully; the change must violate THIS property):
-----
Property {pid}: {title}

Statement: {statement}

Quantified over: {quant}

Relevant files (hint): {files}

-----

Produce TWO different seeded changes (if you can only find one good one, one is fine). Requirements for each:
 1. It is a change to the library source under src/python/rv (or src/python/genrv / specs if relevant) of the kind a developer could plausibly make by mistake or during a refactoring. Small: a few lines.
 2. The library still imports and the existing 170 tests still pass with the change.
 3. It breaks the property, but NOT in a way ordinary use would expose at once: it should need something specific to manifest. Avoid changes that break the property for nearly every input.
 4. Write a demonstration: a small stand-alone Python program demo.py that exits 0 and prints PASS on the UNCHANGED worktree, and exits 1 (prints FAIL and what went wrong) when the change is applied. It must use only the public API and import rv from PYTHONPATH.
 5. Verify all of this yourself: run the tests and demo with and without the change (use `git diff > file`, `git apply`, `git apply -R`, `git checkout -- .` inside your worktree; NEVER `git stash` - the stash is shared between worktrees).

Deliverables, for change k = 1, 2:  directory {wt}/_seeded/m<k>/ containing
   patch.diff   (output of `git diff` for the change, applicable with `git apply` at the worktree root)
   demo.py      (the demonstration)
   notes.md     (3-8 lines: what the change is, why it breaks the property, what it needs in order to manifest, commands you ran and their results)
Leave the worktree itself clean (git checkout -- . ; the _seeded directory is untracked and stays).
Finish with a short report listing the changes you produced. Do not spend effort on more than two changes.

"""
ROUND4 = """IMPORTANT - already taken: in earlier rounds the changes listed below were produced for this property. Do NOT repeat them or close variants (same line, same mechanism). This is the FOURTH round; the earlier rounds exhausted the obvious places. Go for -
  * changes that manifest for ONE particular module type out of the 43, one particular unit / enum member / option, one boundary value, one particular list length or position;
  * Python pitfalls in otherwise reasonable refactorings: mutable default arguments, late-binding closures in loops, `is` vs `==`, truthiness of 0 / empty containers / None, `or`-defaults, integer vs float division, negative modulo, enum identity vs value, dict / set ordering, generator exhaustion, exceptions masked in `finally` / broad `except`, attrs-generated `__eq__` / `__hash__`, deepcopy memo, class attributes vs instance attributes, module-level caches keyed too coarsely, properties with side effects;
  * effects visible only through a DIFFERENT entry point than the code that was changed (changed in a writer but visible only via clone(); changed in controller.py but visible only through a MetaModule or MultiCtl; changed in the reader but visible only on the second save);
  * order dependence across objects or types within one process (what was loaded / constructed / saved before);
  * the less travelled API: Project.__iadd__, Module.__rshift__ chains with lists, Pattern.clone / PatternClone, Note.clone, Project.layout, Synth container, Container.clone, Module.clone on attached modules, controller_midi_maps, propagate/up/down callbacks, tabular_repr, pattern_lines, MultiCtl.macro / reflect, MetaModule.play/user-defined aliases, Sampler effect / envelopes / note_samples helpers.

"""


ROUND5 = """IMPORTANT - already taken: in earlier rounds the changes listed below were produced for this property. Do NOT repeat them or close variants (same line, same mechanism). This is the FIFTH round; the checks being evaluated have already been hardened against all of them, so be inventive. Go for -
  * COMPOSITION: every single operation stays right, a composition breaks - clone of a clone, load of a saved clone, a MetaModule inside a MetaModule, a Sampler effect inside a MetaModule, a MultiCtl that targets a MetaModule's user-defined controller, a pattern attached after modules were attached into gaps, a module moved between containers (Synth -> Project), two projects built alternately;
  * numeric edge semantics: sign extension, masks, int() vs floor, `//` and `%` on negatives, struct format characters (b/B, h/H, i/I), limits of field widths (127/128, 255/256, 32767/32768, 65535/65536, 2**31), empty / length-1 / maximal lists;
  * helper layers many features share (rv/lib/*, rv/chunks/*, rv/_vendor/*, rv/readers/reader.py, rv/cmidmap.py, rv/container.py, rv/synth.py, rv/controller.py, rv/option.py, rv/note.py), changed so that only ONE caller's special case breaks;
  * what the ENVIRONMENT or HISTORY looks like rather than the input: what ran earlier in the process, which classes were instantiated already, whether the object was saved / cloned / loaded before, whether an exception was raised and caught earlier, the global strictness setting, logging configuration;
  * asymmetries between the two containers (.sunvox Project vs .sunsynth Synth) and between the reader and the writer of the same chunk.

"""


ROUND6 = """IMPORTANT - already taken: in earlier rounds the changes listed below were produced for this property. Do NOT repeat them or close variants (same line, same mechanism). This is the SIXTH round; the checks being evaluated have been hardened against all of them (histories on one object, interleaved objects, compositions, boundary values of single fields, environment such as logging level and warnings filters). Go for -
  * SCALE: the change is invisible on small objects and shows only when something is large - more than 255 / 256 modules or patterns, module numbers / link targets / slot numbers above 127, 255 or 32767, patterns with hundreds of lines or 16+ tracks, names at or beyond their byte limits, sample data of 64 KiB and more, 100+ links on one module, 96 user-defined controllers all in use, deep nesting (4+ levels), thousands of operations in one history;
  * the LEAST OBVIOUS CLAUSE of the statement: read the statement clause by clause and break only a clause that a hurried checker would not test (a secondary guarantee, an "and ..." at the end of a sentence, a stated exception or limit, an error case, a return value);
  * combinations of TWO rare conditions (each alone is handled correctly);
  * behaviour that differs only for the SECOND and later occurrences (second empty slot, second freed link, second nested container, second sample, second save of a clone).

"""


ROUND7 = """IMPORTANT - already taken: in earlier rounds the changes listed below were produced for this property. Do NOT repeat them or close variants (same line, same mechanism). This is the SEVENTH round; the checks being evaluated have been hardened against all of them (histories, interleavings, compositions, boundary values, scale in size and in time, environment). Go for -
  * VALUE COINCIDENCES: the change shows only when two independent values happen to be equal or related - a value equal to its default, a controller value equal to a module index, a slot number equal to a list length, two names equal, a size that is an exact multiple of something, x == y, a pattern source that refers to itself, a link from a module to itself;
  * UNDER-SAMPLED CORNERS OF THE STATED DOMAIN: read the "Quantified over" text and pick a region a random generator is unlikely to reach - text with astral-plane characters, combining marks or exactly-at-the-limit byte lengths in a field OTHER than those already attacked; negative or extreme coordinates; pattern clones of clones or of empty slots; the Output module in roles usually played by other modules; every unit of a unit-dependent controller; enum members with the highest value; options at their declared maxima together;
  * ERROR PATHS of the property itself (what must be refused, what must stay unchanged when something is refused, which exception type is promised);
  * a change in how TWO different properties' mechanisms interact, visible under THIS property only.

"""


ROUND8 = """IMPORTANT - already taken: in earlier rounds the changes listed below were produced for this property. Do NOT repeat them or close variants (same line, same mechanism). This is the EIGHTH round. The checks being evaluated are model-based: abstract state machines of the library, bounded exhaustive exploration replayed on real objects, randomly generated objects / files / histories judged by an independent reference encoder-decoder, and by now hardened against histories, interleavings, compositions, boundary values, scale, environment (logging, warnings, strictness), value coincidences and error paths. Think adversarially about what such a checker still cannot see, e.g. -
  * behaviour that depends on OBJECT IDENTITY or on the SAME object being used twice (one Note / Sample / Envelope / Mapping / Synth object placed in two containers, a module attached, used in a Synth and cloned while attached, a list passed in and kept by reference);
  * public entry points nobody generates inputs for: read the package and list them first (constructor keywords of every class, `Project.layout`, `Pattern.clone`, `PatternClone`, `Note.clone / is_empty / tabular_repr`, `Project.pattern_lines`, `MultiCtl.reflect`, `MetaModule` aliases, `Sampler.Envelope` helpers, `Synth` container API, `rv.lib.*` helpers the modules call);
  * arithmetic that is exact for the values a generator likes (0, 1, powers of two, range ends, the default) and wrong in between - rounding direction, float vs int division, truncation toward zero for negatives, off-by-one in the MIDDLE of a range;
  * iteration order, dict / set ordering, sorting with ties, stability of `sorted`, `zip` truncation, `enumerate` start, slices with negative or out-of-range bounds;
  * a change that is visible only the FIRST time something happens in a process (lazy initialisation, import-time tables) or only after a specific exception type was caught.

"""


ROUND9 = """IMPORTANT - already taken: in earlier rounds the changes listed below were produced for this property. Do NOT repeat them or close variants (same line, same mechanism). This is the NINTH round, and in this round you produce only ONE change (directory m1 only; ignore what is said above about a second one) - take the time to make it the most subtle realistic change you can find. The checks being evaluated are model-based: abstract state machines of the library, bounded exhaustive exploration replayed on real objects, randomly generated and deterministic boundary objects / files / histories judged by an independent reference encoder-decoder, child interpreters for first-use effects, and by now hardened against histories, interleavings, compositions, boundary values, scale, environment, value coincidences, error paths, object identity, foreign file forms and second public names. Think adversarially about what such a checker still cannot see, e.g. -
  * the SECOND call of an API on the same object behaving differently from the first (caches, memoised properties, generators consumed, flags set by the first call) where the second call is a different public method than the first;
  * a difference between the stand-alone (Synth / Module.clone) and the in-project path of the same module that only shows for one module type or one field;
  * Python-level protocols of the library's objects that users rely on: ==, hash, bool, len, iteration, `in`, copy.copy / deepcopy / pickle of modules, notes, patterns, projects, containers (ModuleList), and sorting of such objects;
  * an interaction of exactly two features that are each well covered alone (e.g. a unit-dependent range together with a MetaModule mapping, a PatternClone of a pattern that is later bulk-edited, options together with controller MIDI bindings, links together with module flags);
  * a value in the MIDDLE of a domain for which a table lookup, a rounding or a bit mask is special (not the ends, not the default, not a power of two).

"""


def main():
    rnd, root = sys.argv[1], sys.argv[2]
    props = [json.loads(l) for l in open(os.path.join(VERIF, "properties.jsonl"))]
    for p in props:
        pid = p["id"]
        wt = "%s/%s" % (root, pid)
        files = (p.get("anchors") or {}).get("files", [])
        txt = HEAD.format(wt=wt, pid=pid, title=p.get("title", ""), statement=p.get("statement", ""),
                          quant=(p.get("quantifier") or {}).get("text", ""), files=", ".join(map(str, files)))
        txt += ROUND9 if rnd == "9" else ROUND8 if rnd == "8" else ROUND7 if rnd == "7" else ROUND6 if rnd == "6" else ROUND5 if rnd == "5" else ROUND4
        k = 0
        for d in sorted(glob.glob(os.path.join(VERIF, "seeded", pid + "-*"))):
            nf = os.path.join(d, "notes.md")
            if not os.path.exists(nf):
                continue
            k += 1
            txt += "--- earlier change %d ---\n%s\n\n" % (k, open(nf).read().strip()[:240])
        os.makedirs(root, exist_ok=True)
        open("%s/%s.prompt.txt" % (root, pid), "w").write(txt)
    print("wrote %d prompts under %s" % (len(props), root))


if __name__ == "__main__":
    main()

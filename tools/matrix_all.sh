#!/bin/sh
# every seeded change against the quick check of its own property (run from a snapshot of /verif; prints one line per change)
cd "$(dirname "$0")/.."
for d in seeded/*/; do
  n=$(basename $d)
  [ -f $d/meta.json ] || continue
  case "$n" in ${1:-*}) ;; *) continue ;; esac
  p=$(python3 -c "import json;print(json.load(open('$d/meta.json'))['property'])")
  python3 tools/seed.py run $n $p 2>&1 | grep -E "DETECTED|missed|cannot|does not apply|MACH"
done

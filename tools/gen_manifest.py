#!/usr/bin/env python3
"""Regenerates /verif/MANIFEST.json from the table below (single source of truth)."""
import json, os
HERE = os.path.dirname(os.path.dirname(os.path.abspath(__file__)))
NOTE = ("Trusted base: TLC 1.8; the TLA+ modules under /verif/spec (written from docs/sunvox-file-format.rst, "
        "specs/fileformat.yaml and the property text); the harness projection (getattr of public attributes, never "
        "a library serializer) and TLV splitter/joiner. Drivers only choose inputs. Bounded model: see evidence "
        "stages for the constants.")
FMT = ("TLA+ format spec (RVFormat: Write/Read/Norm as executable definition of the documented format) self-checked by TLC "
       "(MC_RVFormat: Read(Write(s))=Norm(s), idempotence, structural rules, unknown-chunk invariance) and evaluated by TLC on real "
       "objects/files (reference evaluation through Trace_RVFormat)")
CHECKS = {
 "C07": dict(technique="TLA+ model (RVLinks) checked exhaustively by TLC; graph replay of every explored transition into real Project.connect/>>/<</~; batch trace validation of random histories",
             text="TLC explores every connect/disconnect request (pairs exhaustively for 3 modules/tables<=2; list operands, operators, foreign modules) checking Consistent and EdgesAsRequested; each explored transition is executed on a real Project in the pre state and compared literally with the spec's allowed posts; random long histories on mixed-type projects are validated event-by-event by the trace spec with Consistent evaluated on every real state.",
             ref="5/C07, 4 (RVLinks), A.1"),
 "C08": dict(technique="TLA+ model (RVLinks save/load reader reconstruction) checked by TLC; real save/load at every sampled reachable model state validated by the trace spec; histories with interleaved save/load",
             text="The reader's two reconstruction passes are specified in TLA+ and the round-trip post-conditions are invariants over all reachable states of the bounded model for four SLnK variants; real projects put into the model's reachable states are saved, rewritten per variant and loaded, and TLC judges the loaded tables (Consistent, equal up to trailing freed slots).",
             ref="5/C08, 4 (RVLinks)"),
 "C14": dict(technique="TLA+ model (RVProject) checked exhaustively by TLC; graph replay of explored transitions into real Project/Module/Pattern/Note objects; batch trace validation of random histories",
             text="TLC explores attach/new_module/attach(None)/attach_pattern/+=/save-load/note.mod on two projects with free modules and patterns, checking Coherent (index = position, parent, output at 0, single ownership) and that attaching moves no other module; explored transitions are executed on real objects put into the pre state (outcome, post state and return value compared), and random API histories are validated by the trace spec.",
             ref="5/C14, 4 (RVProject)"),
 "C13": dict(level="translation_validation", technique="TLA+ registry spec (Trace_RVRegistry over RVSpecData) evaluated by TLC on the import-time class registry; YAML read by an independent walker",
             text="Every class in rv.modules.MODULE_CLASSES is a Register event whose projected metadata TLC compares clause by clause with the specification data extracted from the YAML (group, flags, controller order/numbering/kind/bounds/members/defaults/unit tables, options byte/bit/size/number/default/inversion/exclusivity/bounds, options chunk number); the final state must register exactly the specified types. The comparison is complete over all 43 types, 502 controllers and 49 options.",
             ref="5/C13, 4 (RVRegistry)"),
 "C09": dict(technique="TLA+ controller spec (RVCtl) model-checked by TLC over all types/controllers/units/modes; every probe executed on real module instances and judged by the trace spec",
             text="MC_RVCtl enumerates assignments (min-1..max+1, every enum member by value and by name, invalid ones, booleans) for all 502 specified controllers under every unit in strict and lenient mode with the invariants 'strict fixed ranges stay in domain' and 'rejected assignment changes nothing'; the same complete probe set is executed on real instances through attribute assignment and constructor keywords (plus fresh defaults, and strictness re-probed after loads), and TLC judges outcome and read-back against the YAML-derived data.",
             ref="5/C09, A.5"),
 "C10": dict(technique="TLA+ encoding spec (RVCtl ToRaw/FromRaw/PatEnvelope) checked by TLC over every value of every class; complete enumeration of real get_raw/set_raw/pattern_value judged by the trace spec",
             text="The finite domain is enumerated completely on both sides: TLC checks bijectivity, non-negativity and injectivity of the stored encoding over every value of every YAML range (all units), and the real get_raw/set_raw/pattern_value are called for every value of every controller of every type under every unit (reached by keyword, assignment, set_raw and clone); TLC checks the observed tables (lossless affine runs) against each controller's YAML range and the monotone/end-point envelope.",
             ref="5/C10, A.5"),
 "C11": dict(technique="TLA+ options spec (RVOptions: SetOption/Pack/Unpack) model-checked by TLC; real option assignments, written options records and reloads judged by the trace spec",
             text="MC_RVOptions explores assignments of every representable value to every option of the five option-bearing types in any order (invariants: Unpack(Pack)=id, exclusive options never both on, declared bounds, record covers the highest byte, bits disjoint). Real modules (fresh and loaded-then-edited) get every value of every option, all option pairs and random full assignments, are saved stand-alone and in a project and reloaded; TLC compares the assignment result, the options record bytes with Pack, and the reloaded values.",
             ref="5/C11, A.5"),
 "C12": dict(technique="TLA+ packed-word/note-cell spec (RVWords) model-checked by TLC over (old word, field, new value) triples; array-valued traces from real Note/Pattern/Visualization/module/project objects judged by the trace spec",
             text="SetterCorrect (field reads back masked/clamped, all other fields unchanged) is checked by TLC for every triple of the bounded word sets (thorough: all 65536 note words x all values); real objects are driven over complete old-word axes and complete new-value axes, all NOTECMD x velocity cells, random pattern byte images (in memory and through files) and the SMII/SFGS file words, and TLC compares each result with SetSub/GetSub/NoteBytes/Image.",
             ref="5/C12, A.5"),
 "C18": dict(technique="TLA+ load/strictness spec (RVLoad) model-checked by TLC under every fault schedule; fault-injected real loads (counting stream, wrapped Path.open, corrupted and truncated files, nested loads) validated by the trace spec",
             text="MC_RVLoad explores every schedule of nested loads, reads and a fault at any point for both initial values with invariants Restored (flag back to its entry value and no library-opened file left open once no load is active) and LenientInside. Real loads of all fixtures and generated nested files are run with an I/O error at individual stream call indices, truncation and corruption at chunk positions (also inside embedded containers), both initial values, path and stream; the setting is logged at every stream call, at nested load entry/exit and at return/raise, and TLC validates each trace.",
             ref="5/C18, A.3"),
 "C19": dict(technique="TLA+ bulk-edit spec (RVBulk) with the all-or-nothing action property checked by TLC; real Pattern.set_via_fn/set_via_gen runs with a failure at every cell/yield index and successive edits validated step by step by the trace spec",
             text="MC_RVBulk checks AllOrNothing (contents change only by a commit that installs the working copy) and OwnedWhenIdle over all contents of a small pattern. Real patterns (attached and unattached) are edited with both setters, a failure injected at each position, partial/repeated yields and sequences of edits; the callable logs the contents it observes at each call; TLC validates every begin/cell/fail/commit event incl. ownership and project-aware accessors of every installed note.",
             ref="5/C19, A.4"),
 "C20": dict(technique="TLA+ MultiCtl spec (RVMultiCtl: macro outcome, delivery envelope) with the intended conversion model-checked over the complete input axis; real macro calls and complete 0..32768 sweeps per parameter tuple judged by the trace spec",
             text="MC_RVMultiCtl checks InRange and the Monotone action property of the intended conversion for all 32769 inputs on a grid of gains, windows and spans. MultiCtl.macro is called for every (type, controller) target, for multi-target and refused requests; for sampled parameter tuples (incl. corner gains/quantizations/windows and non-default monotone curves) the real MultiCtl.value is set to every input and the value arriving at the target is recorded; TLC checks outcome, range, monotonicity, and that unmapped links leave their target untouched.",
             ref="5/C20"),
 "C01": dict(technique="%s; generated projects" % FMT,
             text="RVFormat is model-checked for self-consistency on a bounded model and then used as the oracle: every generated real project (all module types, payloads, nested MetaModules, samplers, links, patterns, Unicode names) is saved and loaded by the library and TLC checks loaded = Norm(original) field by field and loaded = Read(bytes) with the spec's own decoder, so a symmetric writer/reader error cannot hide.",
             ref="5/C01, A.6, A.7"),
 "C02": dict(technique="%s; every module type in both contexts and clone" % FMT,
             text="For each of the 42 types, modules at controller minima, maxima and random values under every unit, with random options and payloads, go through Synth.write_to + load, Module.clone() and a project round trip; TLC checks loaded = Norm(original), loaded = Read(bytes), bytes = Write(original); an empty Synth must raise EmptySynthError without writing.",
             ref="5/C02"),
 "C03": dict(technique="%s; Write(p) compared chunk by chunk with every written file, structural rules evaluated separately" % FMT,
             text="RVFormat!Write is an encoder written from the format document and the YAML, independent of the library's writer and reader; TLC compares it chunk by chunk (descending into embedded containers) with every file the run produces and evaluates each structural rule of the property on the real chunk stream.",
             ref="5/C03, A.6"),
 "C04": dict(technique="%s; Read(chunks) compared with what the library loaded from fixtures, edited fixtures and spec-encoded files" % FMT,
             text="RVFormat!Read (mode machine) decodes all 53 fixtures, their structure-preserving edits (unknown chunk at chunk positions incl. nested containers with Read(edited)=Read(original) checked too, dropped optional chunks, truncated CVAL lists, reordered header chunks, files without slot chunks) and files encoded by TLC from abstract descriptions; the projection of what the library loaded must equal Read(chunks).",
             ref="5/C04, A.7"),
 "C05": dict(technique="%s; load/save cycles of fixtures, generated and byte-mutated files judged by the trace spec" % FMT,
             text="For every loadable source (fixtures, generated files, files with arbitrary CVAL/option/note bytes) TLC checks that n further load/save cycles reproduce the first re-saved bytes exactly, that the object reloaded equals the object loaded, and that saving left the object's projection unchanged; the bounded model checks Write(Read(Write(s))) = Write(s).",
             ref="5/C05"),
 "C06": dict(technique="%s; per-leaf edits of loaded fixtures and generated files judged as Norm(SetPath(before, leaf, value))" % FMT,
             text="The attribute catalogue of each loaded file is enumerated; for sampled leaves of every kind the attribute is set through the public API, the object saved and reloaded, and TLC checks the reloaded projection equals the base projection with exactly that leaf replaced (and, for type-specific leaves, that the saved bytes equal Write(current state)).",
             ref="5/C06"),
 "C15": dict(technique="%s; MetaModule-heavy generator (nesting, counts, mappings, labels, values, lowered counts, reloaded-in-project)" % FMT,
             text="RVFormat's MetaModule section (recursive embedded project, 96 mappings, labels and CVALs only for the first n user controllers, target-dependent stored form) is the oracle for generated MetaModules at depth up to 3 in stand-alone, in-project, clone and reloaded-then-resaved contexts.",
             ref="5/C15"),
 "C16": dict(technique="%s; Sampler-heavy generator and TLV-derived legacy variants" % FMT,
             text="RVFormat's Sampler section (header struct at documented offsets, 44-byte sample records, waveform chunks, seven envelope chunks, effect synth, legacy conversion) is the oracle for generated samplers (all slots incl. 127, all format x channel combinations, envelopes up to 40 points, full note maps, field limits) and for legacy variants derived through the TLV layer.",
             ref="5/C16"),
 "C17": dict(technique="TLA+ isolation spec (RVIsolation: NoSharing over reachable mutable cells, frame condition) model-checked by TLC for copy and alias constructor policies; heap-identity snapshots and mutation probes of real objects judged by the trace spec",
             text="MC_RVIsolation shows NoSharing and the frame condition hold iff every constructor/clone policy copies (the alias configuration is run as a self-test and must be rejected). On real objects of every type (B constructed, cloned from A, or loaded from the same bytes; projects; every fixture loaded twice) the harness logs the identities of all mutable containers reachable from instance state and from class attributes / default arguments, and digests of the other object's projection and bytes around every catalogue mutation, clone, load and bulk edit; TLC evaluates NoSharing, class-state immutability and equality of the digests.",
             ref="5/C17"),
}
PENDING = {}
props = [json.loads(l) for l in open(os.path.join(HERE, "properties.jsonl"))]
checks, na = [], []
for p in props:
    i = p["id"]
    if i in CHECKS:
        c = CHECKS[i]
        checks.append({
            "property_id": i,
            "quick_cmd": "./check %s --tier quick" % i,
            "thorough_cmd": "./check %s --tier thorough" % i,
            "evidence_file": "/verif/evidence/%s.json" % i,
            "replay_cmd_template": "./check %s --replay {path}" % i,
            "engine": "tlc",
            "level_claimed": {"category": c.get("level", "model_checking"), "text": c["text"], "design_ref": "DESIGN.md " + c["ref"]},
            "level_note": NOTE,
            "technique": c["technique"],
        })
    else:
        na.append({"property_id": i, "reason": PENDING.get(i, "check not built yet in this round; planned as in DESIGN.md section 5 (TLA+ spec + TLC + conformance)")})
m = {
 "version": 1,
 "setup_cmd": "./check SETUP",
 "hooks": {"guard": "RV_VERIF", "enable": "no source hooks: the public API exposes the abstract state; checks import /repo/src/python from the working tree",
           "baseline_off_cmd": "cd /repo && /venv/bin/python -m pytest -ra -q -p no:cacheprovider --timeout=900 --continue-on-collection-errors",
           "source_commits": [], "add_only": True},
 "engines": [{"name": "tlc", "path": "/opt/veriftools/tla/tla2tools.jar", "serves_properties": sorted(CHECKS),
              "kind_free_text": "explicit-state model checker for the TLA+ specs in /verif/spec; judge of graph replay, trace validation and reference evaluation"}],
 "checks": checks,
 "not_applicable": na,
 "notes": "One TLA+ specification family (spec/*.tla) decides every claimed property; see DESIGN.md. exit 2 = machinery failure (never a violation).",
}
json.dump(m, open(os.path.join(HERE, "MANIFEST.json"), "w"), indent=1)
print("claimed:", [c["property_id"] for c in checks])

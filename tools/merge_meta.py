#!/usr/bin/env python3
"""merge_meta.py <snapshot verif dir>...: copy the `detected_by` records written by `tools/seed.py run` in snapshot copies of /verif
(vp run) into /verif/seeded/*/meta.json (later arguments win)."""
import glob
import json
import os
import sys

HERE = os.path.dirname(os.path.dirname(os.path.abspath(__file__)))
n = 0
import re
for root in sys.argv[1:]:
    # only the changes this run actually exercised (named in its log next to the snapshot)
    log = os.path.join(os.path.dirname(root.rstrip("/")), "log")
    ran = set(re.findall(r"^(\S+) C\d\d \w+ (?:DETECTED|missed)", open(log).read(), re.M)) if os.path.exists(log) else None
    for f in glob.glob(os.path.join(root, "seeded", "*", "meta.json")):
        name = os.path.basename(os.path.dirname(f))
        if ran is not None and name not in ran:
            continue
        dst = os.path.join(HERE, "seeded", name, "meta.json")
        if not os.path.exists(dst):
            continue
        src = json.load(open(f))
        cur = json.load(open(dst))
        new = src.get("detected_by") or {}
        if not new:
            continue
        if cur.get("detected_by") != new:
            merged = dict(cur.get("detected_by") or {})
            merged.update(new)          # (the latest run is the truth, also when it is a miss)
            if merged != cur.get("detected_by"):
                cur["detected_by"] = merged
                json.dump(cur, open(dst, "w"), indent=1)
                n += 1
print("updated", n)

#!/usr/bin/env python3
"""Seeded-change bookkeeping (development aid, not a registered check).

  seed.py confirm <PID> <k> <name>   confirm /tmp/wt/<PID>/_seeded/m<k> in its scratch worktree (tests pass with
                                     the change, demo fails with it and passes without) and copy it to
                                     /verif/seeded/<name>/ with meta.json
  seed.py run <name> <CHECK> [...]   apply seeded/<name>/patch.diff to /repo, run the quick checks, undo, and
                                     record which checks detected it in seeded/<name>/meta.json
"""
import json
import os
import shutil
import subprocess
import sys
import time

VERIF = os.path.dirname(os.path.dirname(os.path.abspath(__file__)))
PY = "/venv/bin/python"


def sh(cmd, cwd=None, env=None, timeout=3600):
    e = dict(os.environ)
    if env:
        e.update(env)
    p = subprocess.run(cmd, shell=True, cwd=cwd, env=e, stdout=subprocess.PIPE, stderr=subprocess.STDOUT, text=True, timeout=timeout)
    return p.returncode, p.stdout


def confirm(pid, k, name, root="/tmp/wt"):
    wt = "%s/%s" % (root, pid)
    src = "%s/_seeded/m%s" % (wt, k)
    env = {"PYTHONPATH": wt + "/src/python"}
    ran = []
    sh("git checkout -- .", cwd=wt)
    rc0, out0 = sh("%s %s/demo.py" % (PY, src), cwd=wt, env=env)
    ran.append("clean tree: demo.py exit %d" % rc0)
    rc, out = sh("git apply %s/patch.diff" % src, cwd=wt)
    if rc:
        print("patch does not apply:", out)
        return 1
    rct, outt = sh("%s -m pytest -q -p no:cacheprovider tests 2>&1 | tail -1" % PY, cwd=wt, env=env)
    ran.append("with change: pytest: " + outt.strip())
    rc1, out1 = sh("%s %s/demo.py" % (PY, src), cwd=wt, env=env)
    ran.append("with change: demo.py exit %d" % rc1)
    sh("git checkout -- .", cwd=wt)
    ok = rc0 == 0 and rc1 != 0 and "170 passed" in outt and "failed" not in outt
    print("\n".join(ran))
    print("CONFIRMED" if ok else "NOT CONFIRMED", name)
    if not ok:
        print(out0[-500:], out1[-800:])
        return 1
    dst = os.path.join(VERIF, "seeded", name)
    os.makedirs(dst, exist_ok=True)
    for f in ("patch.diff", "demo.py", "notes.md"):
        if os.path.exists(os.path.join(src, f)):
            shutil.copy(os.path.join(src, f), os.path.join(dst, f))
    notes = open(os.path.join(src, "notes.md")).read() if os.path.exists(os.path.join(src, "notes.md")) else ""
    meta = {"property": pid, "source": "independent sub-agent given only the property text and a scratch worktree",
            "needs_to_manifest": notes.strip()[:1500], "confirmed": ran,
            "demo_output_with_change": out1.strip()[-600:], "detected_by": {}}
    json.dump(meta, open(os.path.join(dst, "meta.json"), "w"), indent=1)
    return 0


def run(name, checks, tier="quick"):
    """Run checks against the seeded change in a scratch worktree of /repo (RV_REPO), never in /repo itself."""
    d = os.path.join(VERIF, "seeded", name)
    meta = json.load(open(os.path.join(d, "meta.json")))
    wt = "/tmp/mut/%s.%d" % (name, os.getpid())
    os.makedirs("/tmp/mut", exist_ok=True)
    rc, out = sh("git -C /repo worktree add -q --detach %s HEAD" % wt)
    if rc:
        print("cannot create worktree:", out)
        return 2
    try:
        rc, out = sh("git apply %s/patch.diff" % d, cwd=wt)
        if rc:
            print("patch does not apply:", out)
            return 2
        for c in checks:
            t0 = time.time()
            rc, out = sh("./check %s --tier %s" % (c, tier), cwd=VERIF, env={"RV_NO_EVIDENCE": "1", "RV_REPO": wt})
            det = rc == 1 and "VIOLATION property=%s" % c in out
            lines = [l for l in out.splitlines() if l.startswith(("  rejected", "VIOLATION", "MACHINERY", "OK ", "KNOWN"))]
            rej = [l for l in lines if l.startswith("  rejected")]
            meta["detected_by"][c + ":" + tier] = {"detected": det, "exit": rc, "wall_s": round(time.time() - t0, 1),
                                                   "first_rejections": [l[:300] for l in rej[:2]]}
            print(name, c, tier, "DETECTED" if det else "missed (exit %d)" % rc, "%.0fs" % (time.time() - t0), flush=True)
            if not det:
                print("\n".join(l[:300] for l in lines[:5]))
    finally:
        sh("git -C /repo worktree remove --force %s" % wt)
        sh("git -C /repo worktree prune")
    json.dump(meta, open(os.path.join(d, "meta.json"), "w"), indent=1)
    return 0


if __name__ == "__main__":
    if sys.argv[1] == "confirm":
        sys.exit(confirm(sys.argv[2], sys.argv[3], sys.argv[4], *(sys.argv[5:6])))
    if sys.argv[1] == "run":
        tier = "quick"
        args = sys.argv[3:]
        if "--thorough" in args:
            tier = "thorough"
            args.remove("--thorough")
        sys.exit(run(sys.argv[2], args, tier))
